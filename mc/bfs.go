// Package mc holds the explorers. bfs.go: explicit-state breadth-first search over operation histories on real
// objects. A state is the history that reaches it; a successor is "fresh real instance + replay + one more
// letter"; states are deduplicated by a canonical form of the real object's state.
package mc

import (
	"crypto/sha256"
	"fmt"
	"runtime"
	"runtime/debug"
	"strings"
	"sync"
	"sync/atomic"
	"time"
)

// Fail is one oracle failure observed while applying a letter.
type Fail struct {
	Sig  string // stable signature: kind + minimal cause
	What string // human-readable description
}

// Instance is a fresh real object (plus whatever reference model the oracle folds alongside it).
type Instance interface {
	// Apply performs letter l on the real object. The oracle is evaluated when check is true (the last letter of
	// a history; replayed prefixes were checked when they were the last letter).
	Apply(l int, check bool) []Fail
	// Canon is the canonical form of the state; equal Canon must imply equal futures.
	Canon() string
	// Obs is an observable projection that must be a function of Canon (differential oracle); "" disables.
	Obs() string
}

// Config describes one search.
type Config struct {
	Letters []string        // names, for reporting
	New     func() Instance // fresh instance in the initial state
	// NoDedup expands EVERY history instead of one representative per canonical state: state the canonical form does
	// not contain (a counter or cache added to the implementation) can make histories with equal canonical states
	// differ in their futures; short no-deduplication searches complement the deep deduplicating ones.
	NoDedup  bool
	MaxDepth int                          // histories of up to this many letters are explored
	Deadline time.Time                    // zero = none
	Workers  int                          // 0 = NumCPU
	Enabled  func(hist []int, l int) bool // optional alphabet restriction (nil = all)
	MaxFails int                          // stop collecting after this many distinct signatures (default 25)
	// Root is a history from which the search starts (its state is the initial state of this search; MaxDepth
	// still bounds the total history length). Used to shard a search over processes.
	Root []int
	// KeepFrontier makes the result carry the unexpanded frontier at MaxDepth.
	KeepFrontier bool
}

// Found is a failure together with the shortest history that shows it.
type Found struct {
	Fail
	History []string
}

// Result is what a search covered.
type Result struct {
	States         int // distinct canonical states
	Transitions    int // (state, letter) pairs executed on the real object
	RealCalls      int // letters applied to real objects including replays
	DepthCompleted int
	Exhaustive     bool // all levels up to MaxDepth were completed
	Closed         bool // the frontier became empty: the reachable set is closed under the alphabet
	PerDepth       []int
	Fails          []Found
	Samples        [][]string
	Revisits       int     // transitions that led to an already known state
	ObsChecked     int     // revisits on which the differential oracle was evaluated
	Pruned         int     // violating transitions whose target state was not expanded
	PerLetter      []int   // transitions executed per letter
	Frontier       [][]int // with KeepFrontier: histories of the states at MaxDepth
}

type succ struct {
	hash  [16]byte
	obs   string
	fails []Fail
	ok    bool
}

// BFS runs the search.
func BFS(cfg Config) Result {
	if cfg.Workers <= 0 {
		cfg.Workers = runtime.NumCPU()
	}
	if cfg.MaxFails == 0 {
		cfg.MaxFails = 25
	}
	res := Result{}
	nL := len(cfg.Letters)
	name := func(h []int) []string {
		out := make([]string, len(h))
		for i, l := range h {
			out[i] = cfg.Letters[l]
		}
		return out
	}
	seen := map[[16]byte]string{} // canonical hash -> obs of first visit
	failSeen := map[string]bool{}

	init := cfg.New()
	for _, l := range cfg.Root {
		init.Apply(l, false)
	}
	h0 := hash(init.Canon())
	seen[h0] = init.Obs()
	frontier := [][]int{append([]int{}, cfg.Root...)}
	res.States = 1
	res.PerDepth = append(res.PerDepth, 1)

	for depth := len(cfg.Root) + 1; depth <= cfg.MaxDepth; depth++ {
		if len(frontier) == 0 {
			res.Closed = true
			res.DepthCompleted = cfg.MaxDepth
			break
		}
		out := make([][]succ, len(frontier))
		var wg sync.WaitGroup
		var next int
		var mu sync.Mutex
		timedOut := false
		for w := 0; w < cfg.Workers; w++ {
			wg.Add(1)
			go func() {
				defer wg.Done()
				for {
					mu.Lock()
					i := next
					next++
					mu.Unlock()
					if i >= len(frontier) {
						return
					}
					if (!cfg.Deadline.IsZero() && time.Now().After(cfg.Deadline)) || crashed.Load() {
						// (after a crash of the code under test the level is abandoned: the crash is reported,
						// and a leaked lock would make every further transition wait for the leak watch)
						mu.Lock()
						timedOut = true
						mu.Unlock()
						return
					}
					hist := frontier[i]
					row := make([]succ, nL)
					for l := 0; l < nL; l++ {
						if cfg.Enabled != nil && !cfg.Enabled(hist, l) {
							continue
						}
						inst := cfg.New()
						for _, pl := range hist {
							inst.Apply(pl, false)
						}
						row[l] = step(inst, l, hist)
					}
					out[i] = row
				}
			}()
		}
		wg.Wait()
		if timedOut {
			// The level is incomplete: report only fully completed depths; failures found so far are still
			// real and are kept.
			for i, row := range out {
				for l, s := range row {
					if s.ok {
						collectFails(&res, failSeen, cfg.MaxFails, s.fails, append(name(frontier[i]), cfg.Letters[l]))
					}
				}
			}
			res.DepthCompleted = depth - 1
			return res
		}
		var nextFrontier [][]int
		for i, row := range out {
			for l, s := range row {
				if !s.ok {
					continue
				}
				res.Transitions++
				if res.PerLetter == nil {
					res.PerLetter = make([]int, nL)
				}
				res.PerLetter[l]++
				res.RealCalls += len(frontier[i]) + 1
				hist := append(append([]int{}, frontier[i]...), l)
				collectFails(&res, failSeen, cfg.MaxFails, s.fails, name(hist))
				if len(s.fails) > 0 {
					// A state reached through a violating transition is not expanded: every signature reported
					// then belongs to a minimal failing history instead of an accumulation of earlier damage.
					res.Pruned++
					continue
				}
				if prev, ok := seen[s.hash]; ok && !cfg.NoDedup {
					res.Revisits++
					if s.obs != "" || prev != "" {
						res.ObsChecked++
						if prev != s.obs {
							collectFails(&res, failSeen, cfg.MaxFails, []Fail{{Sig: "differential/obs-differs-for-equal-canonical-state", What: "two histories reach the same canonical state but observe differently: " + prev + " VS " + s.obs}}, name(hist))
						}
					}
					continue
				}
				seen[s.hash] = s.obs
				res.States++
				nextFrontier = append(nextFrontier, hist)
				if len(res.Samples) < 6 && (len(nextFrontier)%97 == 1) {
					res.Samples = append(res.Samples, name(hist))
				}
			}
		}
		res.PerDepth = append(res.PerDepth, len(nextFrontier))
		res.DepthCompleted = depth
		frontier = nextFrontier
	}
	if len(frontier) == 0 {
		res.Closed = true
	}
	if cfg.KeepFrontier {
		res.Frontier = frontier
	}
	if cfg.MaxDepth <= len(cfg.Root) {
		res.DepthCompleted = cfg.MaxDepth
	}
	res.Exhaustive = res.DepthCompleted == cfg.MaxDepth
	return res
}

func collectFails(res *Result, seen map[string]bool, max int, fails []Fail, hist []string) {
	for _, f := range fails {
		if seen[f.Sig] || len(res.Fails) >= max {
			continue
		}
		seen[f.Sig] = true
		res.Fails = append(res.Fails, Found{Fail: f, History: hist})
	}
}

func hash(s string) [16]byte {
	h := sha256.Sum256([]byte(s))
	var o [16]byte
	copy(o[:], h[:16])
	return o
}

// crashed is set by the first panic of the code under test in this process.
var crashed atomic.Bool

// step applies the last letter of a history with the oracle on. A panic of the code under test (or of the lock-leak
// watch of the native shims) is a verdict, not the death of the worker: the state is not expanded.
func step(inst Instance, l int, hist []int) (out succ) {
	defer func() {
		if r := recover(); r != nil {
			st := string(debug.Stack())
			crashed.Store(true)
			out = succ{hash: hash(fmt.Sprint("crashed", hist, l)), ok: true, fails: []Fail{{Sig: "crash/" + CrashSite(st), What: fmt.Sprintf("panic: %v\n%s", r, firstLines(st, 40))}}}
		}
	}()
	fails := inst.Apply(l, true)
	return succ{hash: hash(inst.Canon()), obs: inst.Obs(), fails: fails, ok: true}
}

// CrashSite extracts the first frame of the code under test from a stack trace.
func CrashSite(stack string) string {
	for _, ln := range strings.Split(stack, "\n") {
		ln = strings.TrimSpace(ln)
		if (strings.HasPrefix(ln, "github.com/openconfig/gribigo/") || strings.HasPrefix(ln, "github.com/openconfig/ygot/")) && strings.Contains(ln, "(") {
			return strings.TrimPrefix(ln[:strings.LastIndex(ln, "(")], "github.com/openconfig/")
		}
	}
	return "unknown"
}

func firstLines(s string, n int) string {
	ls := strings.Split(s, "\n")
	if len(ls) > n {
		ls = ls[:n]
	}
	return strings.Join(ls, "\n")
}
