package mc

import (
	"fmt"
	"sort"
	"time"

	"verif/rt"
)

// SchedConfig describes a stateless exploration of the schedules / environment choices of one harness body.
type SchedConfig struct {
	Name     string
	Body     func()                  // runs as thread 0 under rt
	Check    func(x *rt.Exec) []Fail // oracle, evaluated after every execution
	Outcome  func(x *rt.Exec) string // optional: classifies the execution (vacuity indicator)
	Bound    int                     // maximal deviation cost (preemptions + costed environment deviations)
	Deadline time.Time
	MaxSteps int
	// SwitchCost: see rt.Options.
	SwitchCost int
}

// SchedResult is what an exploration covered.
type SchedResult struct {
	Execs          int
	Steps          int
	ChoicePoints   int
	BoundCompleted int // -1 if not even bound 0 completed
	Exhaustive     bool
	ExecsPerBound  []int
	Outcomes       map[string]int
	Fails          []Found
	Sample         []string // trace of the first execution
	EngineError    string
	MaxChoices     int
}

// DFS explores all choice vectors of cost <= Bound, iterating the bound 0,1,...
func DFS(cfg SchedConfig) SchedResult {
	res := SchedResult{BoundCompleted: -1, Outcomes: map[string]int{}}
	failSeen := map[string]bool{}
	var explore func(prefix []int, bound int, exact bool) bool
	explore = func(prefix []int, bound int, exact bool) bool {
		if !cfg.Deadline.IsZero() && time.Now().After(cfg.Deadline) {
			return false
		}
		x := rt.Run(rt.Options{Prefix: prefix, MaxSteps: cfg.MaxSteps, SwitchCost: cfg.SwitchCost}, cfg.Body)
		if x.Aborted != "" {
			res.EngineError = x.Aborted + fmt.Sprintf(" (prefix %v)", prefix)
			return false
		}
		cost := x.Cost()
		// with iterative bounding, executions of lower cost were already counted in an earlier iteration
		if !exact || cost == bound {
			res.Execs++
			res.Steps += x.Steps
			res.ChoicePoints += len(x.Choices)
			if len(x.Choices) > res.MaxChoices {
				res.MaxChoices = len(x.Choices)
			}
			if cfg.Outcome != nil {
				res.Outcomes[cfg.Outcome(x)]++
			}
			if cfg.Check != nil {
				for _, f := range cfg.Check(x) {
					if !failSeen[f.Sig] && len(res.Fails) < 25 {
						failSeen[f.Sig] = true
						res.Fails = append(res.Fails, Found{Fail: f, History: []string{fmt.Sprintf("choices=%v", chosen(x))}})
					}
				}
			}
		}
		before := 0
		for i := 0; i < len(x.Choices); i++ {
			p := x.Choices[i]
			if i >= len(prefix) {
				for alt := 1; alt < p.N; alt++ {
					if before+p.AltCost > bound {
						break
					}
					np := append(append(make([]int, 0, i+1), chosen(x)[:i]...), alt)
					if !explore(np, bound, exact) {
						return false
					}
				}
			}
			if p.Chosen > 0 {
				before += p.AltCost
			}
		}
		return true
	}
	// determinism self-check: the default execution, replayed, must take the same decisions at the same points
	// (otherwise some source of nondeterminism is not owned by the scheduler and no failure could be trusted).
	{
		a := rt.Run(rt.Options{MaxSteps: cfg.MaxSteps, SwitchCost: cfg.SwitchCost}, cfg.Body)
		b := rt.Run(rt.Options{Prefix: chosen(a), MaxSteps: cfg.MaxSteps, SwitchCost: cfg.SwitchCost}, cfg.Body)
		if shape(a) != shape(b) || a.Aborted != "" || b.Aborted != "" {
			res.EngineError = fmt.Sprintf("nondeterministic execution: replaying the default schedule gave a different run (%s | %s) vs (%s | %s)", shape(a), a.Aborted, shape(b), b.Aborted)
			return res
		}
	}
	for b := 0; b <= cfg.Bound; b++ {
		n0 := res.Execs
		if !explore(nil, b, true) {
			res.ExecsPerBound = append(res.ExecsPerBound, res.Execs-n0)
			return res
		}
		res.ExecsPerBound = append(res.ExecsPerBound, res.Execs-n0)
		res.BoundCompleted = b
	}
	res.Exhaustive = true
	return res
}

func chosen(x *rt.Exec) []int {
	out := make([]int, len(x.Choices))
	for i, c := range x.Choices {
		out[i] = c.Chosen
	}
	return out
}

// OutcomeKeys returns the sorted outcome classes.
func (r SchedResult) OutcomeKeys() []string {
	ks := make([]string, 0, len(r.Outcomes))
	for k := range r.Outcomes {
		ks = append(ks, k)
	}
	sort.Strings(ks)
	return ks
}

// shape summarises the decision structure of an execution.
func shape(x *rt.Exec) string {
	h := uint64(1469598103934665603)
	for _, c := range x.Choices {
		for _, b := range []byte(fmt.Sprintf("%s/%d/%d;", c.Kind, c.N, c.Chosen)) {
			h = (h ^ uint64(b)) * 1099511628211
		}
	}
	return fmt.Sprintf("steps=%d choices=%d hash=%x deadlock=%v livelock=%v crash=%v", x.Steps, len(x.Choices), h, x.Deadlock, x.Livelock, x.Crash != "")
}
