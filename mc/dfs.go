package mc

import (
	"fmt"
	"os"
	"sort"
	"strings"
	"time"

	"verif/rt"
)

// SchedConfig describes a stateless exploration of the schedules / environment choices of one harness body.
type SchedConfig struct {
	Name     string
	Body     func()                  // runs as thread 0 under rt
	Check    func(x *rt.Exec) []Fail // oracle, evaluated after every execution
	Outcome  func(x *rt.Exec) string // optional: classifies the execution (vacuity indicator)
	Bound    int                     // maximal deviation cost (preemptions + costed environment deviations)
	Deadline time.Time
	MaxSteps int
	// SwitchCost: see rt.Options.
	SwitchCost int
	// StateCache prunes an execution at the first choice point whose happens-before state key (rt/hb.go) has already
	// been expanded with at least the same remaining deviation budget: everything reachable from there within the
	// budget has been (or is being) explored from the earlier visit. The set of explored behaviours is the same as
	// without the cache; only re-exploration of equivalent interleavings is cut.
	StateCache bool
	// NoStateCache switches the cache off even when it is on by default (CacheDefault).
	NoStateCache bool
	// Unbounded explores every schedule (no deviation bound); only sensible together with StateCache. Bound is ignored.
	Unbounded bool
}

// SchedResult is what an exploration covered.
type SchedResult struct {
	Execs          int
	Steps          int
	ChoicePoints   int
	BoundCompleted int // -1 if not even bound 0 completed
	Exhaustive     bool
	ExecsPerBound  []int
	Outcomes       map[string]int
	Fails          []Found
	Sample         []string // trace of the first execution
	EngineError    string
	MaxChoices     int
	Pruned         int    // executions cut at an already expanded state (StateCache)
	States         int    // distinct state keys expanded (StateCache)
	CacheDiff      string // VERIF_DIFF: summary of the cache self-test for this exploration
}

// MaxCacheEntries bounds the memory of the state cache of one exploration (about 70 bytes per entry; several
// explorations run side by side as shard processes).
var MaxCacheEntries = 6_000_000

// CacheDefault: the happens-before state cache is on for every exploration unless VERIF_NOCACHE is set (or the
// configuration opts out).
var CacheDefault = os.Getenv("VERIF_NOCACHE") == ""

// DFS explores all choice vectors of cost <= Bound, iterating the bound 0,1,... With VERIF_DIFF set it is a
// self-test of the state cache: the exploration is run without and with the cache and the two must observe the same
// set of (outcome class, oracle verdicts, harness event labels) observations; a difference is an engine error.
func DFS(cfg SchedConfig) SchedResult {
	cfg.StateCache = !cfg.NoStateCache && (cfg.StateCache || CacheDefault)
	if os.Getenv("VERIF_DIFF") == "" || !cfg.StateCache {
		return dfs(cfg)
	}
	full := func(x *rt.Exec) string {
		var sb strings.Builder
		if cfg.Outcome != nil {
			sb.WriteString(cfg.Outcome(x))
		}
		fmt.Fprintf(&sb, " | crash=%v deadlock=%v livelock=%v blocked=%v |", x.Crash != "", x.Deadlock, x.Livelock, x.Blocked)
		if cfg.Check != nil {
			var sigs []string
			for _, f := range cfg.Check(x) {
				sigs = append(sigs, f.Sig)
			}
			sort.Strings(sigs)
			sb.WriteString(strings.Join(sigs, ","))
		}
		sb.WriteString(" |")
		for _, e := range x.Events {
			sb.WriteString(" " + e.Label)
		}
		return sb.String()
	}
	// every run gets the whole time budget of the exploration; the comparison is made at the largest bound that the
	// plain search completes within it
	var dur time.Duration
	if !cfg.Deadline.IsZero() {
		dur = time.Until(cfg.Deadline)
	}
	fresh := func(c SchedConfig) SchedConfig {
		if dur > 0 {
			c.Deadline = time.Now().Add(dur)
		}
		return c
	}
	plain, cached := cfg, cfg
	plain.StateCache, plain.Outcome, plain.Check = false, full, nil
	cached.Outcome, cached.Check = full, nil
	a := SchedResult{BoundCompleted: -1}
	top := cfg.Bound
	if cfg.Unbounded {
		top = 0
	}
	for k := 0; k <= top; k++ {
		plain.Bound = k
		r := dfs(fresh(plain))
		if !r.Exhaustive {
			break
		}
		a = r
	}
	if a.BoundCompleted < 0 {
		res := dfs(fresh(cfg))
		res.CacheDiff = "the search without the cache did not complete any bound within the budget: nothing compared"
		return res
	}
	cached.Bound, cached.Unbounded = a.BoundCompleted, cfg.Unbounded
	b := dfs(fresh(cached))
	res := dfs(fresh(cfg))
	miss, extra := 0, 0
	example := ""
	for k := range a.Outcomes {
		if b.Outcomes[k] == 0 {
			miss++
			example = k
		}
	}
	for k := range b.Outcomes {
		if a.Outcomes[k] == 0 {
			extra++
			example = k
		}
	}
	complete := b.Exhaustive && a.EngineError == "" && b.EngineError == ""
	res.CacheDiff = fmt.Sprintf("bound completed %d/%d: %d executions, %d observations without the cache; %d executions (+%d pruned, %d states), %d observations with it; missing %d, extra %d",
		a.BoundCompleted, b.BoundCompleted, a.Execs, len(a.Outcomes), b.Execs, b.Pruned, b.States, len(b.Outcomes), miss, extra)
	fmt.Printf("CACHE-DIFF %s: %s\n", cfg.Name, res.CacheDiff)
	if complete && (miss > 0 || extra > 0) && res.EngineError == "" {
		res.EngineError = fmt.Sprintf("state cache self-test failed: %d observations missing and %d extra with the cache, e.g. %q", miss, extra, example)
	}
	return res
}

func dfs(cfg SchedConfig) SchedResult {
	res := SchedResult{BoundCompleted: -1, Outcomes: map[string]int{}}
	failSeen := map[string]bool{}
	cache := map[rt.Key]int{}
	var explore func(prefix []int, bound int, exact bool) bool
	explore = func(prefix []int, bound int, exact bool) bool {
		if !cfg.Deadline.IsZero() && time.Now().After(cfg.Deadline) {
			return false
		}
		o := rt.Options{Prefix: prefix, MaxSteps: cfg.MaxSteps, SwitchCost: cfg.SwitchCost}
		if cfg.StateCache {
			o.Visit = func(i int, k rt.Key, cost int) bool {
				rem := bound - cost
				if v, ok := cache[k]; ok && v >= rem {
					return true
				}
				// (the cache is capped: a state that is not remembered is merely explored again)
				if _, ok := cache[k]; ok || len(cache) < MaxCacheEntries {
					cache[k] = rem
				}
				return false
			}
		}
		x := rt.Run(o, cfg.Body)
		if x.Aborted != "" {
			res.EngineError = x.Aborted + fmt.Sprintf(" (prefix %v)", prefix)
			return false
		}
		cost := x.Cost()
		if x.Pruned {
			res.Pruned++
			res.Steps += x.Steps
		}
		// with iterative bounding, executions of lower cost were already counted in an earlier iteration
		if !x.Pruned && (!exact || cost == bound) {
			res.Execs++
			res.Steps += x.Steps
			res.ChoicePoints += len(x.Choices)
			if len(x.Choices) > res.MaxChoices {
				res.MaxChoices = len(x.Choices)
			}
			if cfg.Outcome != nil {
				res.Outcomes[cfg.Outcome(x)]++
			}
			if cfg.Check != nil {
				for _, f := range cfg.Check(x) {
					if !failSeen[f.Sig] && len(res.Fails) < 25 {
						failSeen[f.Sig] = true
						res.Fails = append(res.Fails, Found{Fail: f, History: []string{fmt.Sprintf("choices=%v", chosen(x))}})
					}
				}
			}
		}
		before := 0
		for i := 0; i < len(x.Choices); i++ {
			p := x.Choices[i]
			if i >= len(prefix) {
				for alt := 1; alt < p.N; alt++ {
					if before+p.AltCost > bound {
						break
					}
					np := append(append(make([]int, 0, i+1), chosen(x)[:i]...), alt)
					if !explore(np, bound, exact) {
						return false
					}
				}
			}
			if p.Chosen > 0 {
				before += p.AltCost
			}
		}
		return true
	}
	// determinism self-check: the default execution, replayed, must take the same decisions at the same points
	// (otherwise some source of nondeterminism is not owned by the scheduler and no failure could be trusted).
	{
		a := rt.Run(rt.Options{MaxSteps: cfg.MaxSteps, SwitchCost: cfg.SwitchCost}, cfg.Body)
		b := rt.Run(rt.Options{Prefix: chosen(a), MaxSteps: cfg.MaxSteps, SwitchCost: cfg.SwitchCost}, cfg.Body)
		if shape(a) != shape(b) || a.Aborted != "" || b.Aborted != "" {
			res.EngineError = fmt.Sprintf("nondeterministic execution: replaying the default schedule gave a different run (%s | %s) vs (%s | %s)", shape(a), a.Aborted, shape(b), b.Aborted)
			return res
		}
	}
	if cfg.Unbounded {
		ok := explore(nil, 1<<30, false)
		res.ExecsPerBound = []int{res.Execs}
		res.States = len(cache)
		if ok {
			res.Exhaustive = true
			res.BoundCompleted = 1 << 30
		}
		return res
	}
	for b := 0; b <= cfg.Bound; b++ {
		clear(cache)
		n0 := res.Execs
		if !explore(nil, b, true) {
			res.ExecsPerBound = append(res.ExecsPerBound, res.Execs-n0)
			return res
		}
		res.ExecsPerBound = append(res.ExecsPerBound, res.Execs-n0)
		res.BoundCompleted = b
		res.States = len(cache)
	}
	res.Exhaustive = true
	return res
}

func chosen(x *rt.Exec) []int {
	out := make([]int, len(x.Choices))
	for i, c := range x.Choices {
		out[i] = c.Chosen
	}
	return out
}

// OutcomeKeys returns the sorted outcome classes.
func (r SchedResult) OutcomeKeys() []string {
	ks := make([]string, 0, len(r.Outcomes))
	for k := range r.Outcomes {
		ks = append(ks, k)
	}
	sort.Strings(ks)
	return ks
}

// shape summarises the decision structure of an execution.
func shape(x *rt.Exec) string {
	h := uint64(1469598103934665603)
	for _, c := range x.Choices {
		for _, b := range []byte(fmt.Sprintf("%s/%d/%d;", c.Kind, c.N, c.Chosen)) {
			h = (h ^ uint64(b)) * 1099511628211
		}
	}
	return fmt.Sprintf("steps=%d choices=%d hash=%x deadlock=%v livelock=%v crash=%v", x.Steps, len(x.Choices), h, x.Deadlock, x.Livelock, x.Crash != "")
}
