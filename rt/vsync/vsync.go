// Package vsync replaces "sync" in the instrumented packages: same API, but under a controlled execution every
// operation is a request to the scheduler. Outside a controlled execution the real primitives are used.
package vsync

import (
	"sync"
	"time"
	"unsafe"

	"verif/rt"
)

// LeakWatch makes the native (uncontrolled) lock operations report a lock that cannot be acquired for LeakGrace as
// a panic instead of blocking forever. The sequential harnesses run the real code on private instances, where a
// lock is never held for longer than microseconds: one that stays unavailable for half a minute was left held by an
// earlier call (a missing unlock on some return path) or is a self-deadlock. The panic is turned into a verdict by
// the explorer; without the watch such a defect would hang the check instead of failing it.
var (
	LeakWatch bool
	LeakGrace = 30 * time.Second
)

func nativeAcquire(try func() bool, block func(), what string) {
	if !LeakWatch {
		block()
		return
	}
	if try() {
		return
	}
	deadline := time.Now().Add(LeakGrace)
	for d := 50 * time.Microsecond; !try(); {
		if time.Now().After(deadline) {
			waited := LeakGrace.String()
			LeakGrace = time.Second // (the first leak has been established; later waits need not be as patient)
			panic("vsync: " + what + " could not be acquired for " + waited + " outside a controlled execution: the lock was left held (missing unlock on a return path, or self-deadlock)")
		}
		time.Sleep(d)
		if d < 20*time.Millisecond {
			d *= 2
		}
	}
}

// RWMutex mirrors sync.RWMutex (writer preference included, see rt).
type RWMutex struct {
	real             sync.RWMutex
	tokR, tokW, tokM [16]byte
}

func (m *RWMutex) Lock() {
	if !rt.Active() {
		nativeAcquire(m.real.TryLock, m.real.Lock, "RWMutex.Lock")
		return
	}
	rt.RWLock(unsafe.Pointer(m))
	rt.RaceAcquire(unsafe.Pointer(&m.tokM))
	rt.RaceAcquire(unsafe.Pointer(&m.tokR))
	rt.RaceAcquire(unsafe.Pointer(&m.tokW))
}

func (m *RWMutex) Unlock() {
	if !rt.Active() {
		m.real.Unlock()
		return
	}
	rt.RaceRelease(unsafe.Pointer(&m.tokR))
	rt.RaceRelease(unsafe.Pointer(&m.tokM))
	rt.RWUnlock(unsafe.Pointer(m))
}

func (m *RWMutex) RLock() {
	if !rt.Active() {
		nativeAcquire(m.real.TryRLock, m.real.RLock, "RWMutex.RLock")
		return
	}
	rt.RWRLock(unsafe.Pointer(m))
	rt.RaceAcquire(unsafe.Pointer(&m.tokR))
}

func (m *RWMutex) RUnlock() {
	if !rt.Active() {
		m.real.RUnlock()
		return
	}
	rt.RaceReleaseMerge(unsafe.Pointer(&m.tokW))
	rt.RWRUnlock(unsafe.Pointer(m))
}

// Mutex mirrors sync.Mutex.
type Mutex struct {
	real sync.Mutex
	tok  [16]byte
}

func (m *Mutex) Lock() {
	if !rt.Active() {
		nativeAcquire(m.real.TryLock, m.real.Lock, "Mutex.Lock")
		return
	}
	rt.MutexLock(unsafe.Pointer(m))
	rt.RaceAcquire(unsafe.Pointer(&m.tok))
}

func (m *Mutex) Unlock() {
	if !rt.Active() {
		m.real.Unlock()
		return
	}
	rt.RaceRelease(unsafe.Pointer(&m.tok))
	rt.MutexUnlock(unsafe.Pointer(m))
}

// WaitGroup mirrors sync.WaitGroup.
type WaitGroup struct {
	real sync.WaitGroup
	tok  [16]byte
}

func (w *WaitGroup) Add(n int) {
	if !rt.Active() {
		w.real.Add(n)
		return
	}
	if n < 0 {
		rt.RaceReleaseMerge(unsafe.Pointer(&w.tok))
	}
	rt.WgAdd(unsafe.Pointer(w), n)
}

func (w *WaitGroup) Done() { w.Add(-1) }

func (w *WaitGroup) Wait() {
	if !rt.Active() {
		w.real.Wait()
		return
	}
	rt.WgWait(unsafe.Pointer(w))
	rt.RaceAcquire(unsafe.Pointer(&w.tok))
}

// Cond mirrors sync.Cond on top of channels of the controlled runtime: a waiter parks on a channel of its own, Signal
// closes the oldest one, Broadcast all of them.
type Cond struct {
	L       sync.Locker
	real    *sync.Cond
	waiters []chan struct{}
}

func NewCond(l sync.Locker) *Cond { return &Cond{L: l, real: sync.NewCond(l)} }

func (c *Cond) native() *sync.Cond {
	if c.real == nil {
		c.real = sync.NewCond(c.L)
	}
	return c.real
}

func (c *Cond) Wait() {
	if !rt.Active() {
		c.native().Wait()
		return
	}
	ch := make(chan struct{})
	c.waiters = append(c.waiters, ch)
	c.L.Unlock()
	rt.Recv(ch)
	c.L.Lock()
}

func (c *Cond) Signal() {
	if !rt.Active() {
		c.native().Signal()
		return
	}
	if len(c.waiters) > 0 {
		ch := c.waiters[0]
		c.waiters = c.waiters[1:]
		rt.Close(ch)
	}
}

func (c *Cond) Broadcast() {
	if !rt.Active() {
		c.native().Broadcast()
		return
	}
	ws := c.waiters
	c.waiters = nil
	for _, ch := range ws {
		rt.Close(ch)
	}
}

// Once mirrors sync.Once (no scheduling point; the code under test does not use it concurrently).
type Once = sync.Once

// Types without a blocking behaviour of their own are the real ones (their internal synchronisation is real, so
// the race detector sees it; they add no scheduling points).
type (
	Map    = sync.Map
	Pool   = sync.Pool
	Locker = sync.Locker
)

func OnceFunc(f func()) func()                                 { return sync.OnceFunc(f) }
func OnceValue[T any](f func() T) func() T                     { return sync.OnceValue(f) }
func OnceValues[T1, T2 any](f func() (T1, T2)) func() (T1, T2) { return sync.OnceValues(f) }
