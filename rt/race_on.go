//go:build race

package rt

import (
	"runtime"
	"unsafe"
)

// RaceEnabled reports whether the binary was built with -race.
const RaceEnabled = true

func raceDisable()                      { runtime.RaceDisable() }
func raceEnable()                       { runtime.RaceEnable() }
func RaceAcquire(p unsafe.Pointer)      { runtime.RaceAcquire(p) }
func RaceRelease(p unsafe.Pointer)      { runtime.RaceRelease(p) }
func RaceReleaseMerge(p unsafe.Pointer) { runtime.RaceReleaseMerge(p) }
func RaceErrors() int                   { return runtime.RaceErrors() }
