//go:build !race

package rt

import "unsafe"

// RaceEnabled reports whether the binary was built with -race.
const RaceEnabled = false

func raceDisable()                      {}
func raceEnable()                       {}
func RaceAcquire(p unsafe.Pointer)      {}
func RaceRelease(p unsafe.Pointer)      {}
func RaceReleaseMerge(p unsafe.Pointer) {}
func RaceErrors() int                   { return 0 }
