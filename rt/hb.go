package rt

import "unsafe"

// Happens-before state keys.
//
// With Options.Keys the actor maintains, for every thread, a hash chain over the thread's own visible operations in
// which every operation that receives a happens-before edge also mixes in the chain value of the edge's source (the
// unlock a lock acquisition follows, the send a receive takes its message from, the store an atomic load reads, ...).
// A thread's chain value therefore identifies the thread's causal past: two execution prefixes in which every thread
// has the same chain value are two linearisations of one partial order (a Mazurkiewicz trace), and - the program
// being free of data races, which the race oracle checks separately, and every other input (time, identifiers, map
// order, harness event order) being owned by the actor and mixed in as well - they have reached the same program
// state. The key of a choice point is a hash of all chain values, all pending operations, the modelled state of every
// synchronisation object and the scheduler's own state (virtual clock, sleepers, the thread that ran last, which
// determines default choices and deviation costs). The explorer prunes an execution when it reaches a key it has
// already expanded with at least the same remaining deviation budget (mc.DFS, StateCache).
//
// Everything that makes the key finer than necessary only costs pruning, never soundness; so object identities are
// derived from the first thread that touches an object (not canonical across equivalent prefixes in which two
// unordered threads race to touch it first), thread ids are the schedule-dependent spawn numbers, and the order of
// harness events (rt.Emit / rt.Note) is part of the key because oracles read Exec.Events as a sequence.

// Key is a 128-bit state key.
type Key [2]uint64

type hv struct{ a, b uint64 }

func sm(x uint64) uint64 {
	x += 0x9e3779b97f4a7c15
	x = (x ^ (x >> 30)) * 0xbf58476d1ce4e5b9
	x = (x ^ (x >> 27)) * 0x94d049bb133111eb
	return x ^ (x >> 31)
}

func (h hv) mix(x uint64) hv {
	return hv{sm(h.a ^ x), sm(h.b + (x|1)*0xd6e8feb86659fd93 + 0x2545f4914f6cdd1d)}
}
func (h hv) mixh(o hv) hv   { return h.mix(o.a).mix(o.b) }
func (h hv) add(o hv) hv    { return hv{h.a + o.a, h.b + o.b} }
func (h hv) sub(o hv) hv    { return hv{h.a - o.a, h.b - o.b} }
func (h hv) op(k opKind) hv { return h.mix(0x100 + uint64(k)) }
func strHash(s string) uint64 {
	h := uint64(14695981039346656037)
	for i := 0; i < len(s); i++ {
		h = (h ^ uint64(s[i])) * 1099511628211
	}
	return h
}

// hobj is the hashing state of one synchronisation object.
type hobj struct {
	id      uint64 // identity: derived from the chain value of the first thread that used it
	rel     hv     // chain value of the last release (unlock / store / close)
	relR    hv     // commutative sum of releases that are not ordered among themselves (RUnlock, WaitGroup.Add)
	contrib hv     // current contribution of the object to the global object sum
}

type atState struct{ hobj }

const (
	opAtomicStore opKind = 100 + iota // (hash bookkeeping only; never a request kind of a parked thread)
	opNextID
	opNow
	opSelDefault
	opRecvClosed
	opSpawnChild
)

// oid returns the identity of the object at p as seen by thread t (assigning one on first use).
func (s *sched) oid(t *thread, p unsafe.Pointer) uint64 {
	if p == nil {
		return 0
	}
	if id, ok := s.ids[p]; ok {
		return id
	}
	t.nobj++
	id := sm(t.h.a ^ sm(uint64(t.nobj)<<20|uint64(t.id)))
	s.ids[p] = id
	return id
}

func (s *sched) atOf(p unsafe.Pointer) *atState {
	a := s.at[p]
	if a == nil {
		a = &atState{}
		s.at[p] = a
	}
	return a
}

// setContrib replaces the object's contribution to the global sum.
func (s *sched) setContrib(o *hobj, c hv) {
	s.objSum = s.objSum.sub(o.contrib).add(c)
	o.contrib = c
}

func b2u(b bool) uint64 {
	if b {
		return 1
	}
	return 0
}

func (s *sched) touchMu(t *thread, p unsafe.Pointer, m *muState) {
	m.id = s.oid(t, p)
	s.setContrib(&m.hobj, hv{}.mix(m.id).mix(b2u(m.held)).mixh(m.rel))
}

func (s *sched) touchRW(t *thread, p unsafe.Pointer, w *rwState) {
	w.id = s.oid(t, p)
	ws := uint64(0)
	if w.wslot != nil {
		ws = uint64(w.wslot.id) + 1
	}
	s.setContrib(&w.hobj, hv{}.mix(w.id).mix(ws).mix(b2u(w.announced)<<1|b2u(w.writer)).mix(uint64(w.readers)).mixh(w.rel).mixh(w.relR))
}

func (s *sched) touchWg(t *thread, p unsafe.Pointer, w *wgState) {
	w.id = s.oid(t, p)
	s.setContrib(&w.hobj, hv{}.mix(w.id).mix(uint64(int64(w.n))).mixh(w.relR))
}

func (s *sched) touchCh(t *thread, p unsafe.Pointer, c *chState) {
	c.id = s.oid(t, p)
	h := hv{}.mix(c.id).mix(b2u(c.closed)).mix(uint64(len(c.buf)))
	if c.closed {
		h = h.mixh(c.rel)
	}
	for i := range c.buf {
		h = h.mixh(c.buf[i].h)
	}
	s.setContrib(&c.hobj, h)
}

func (s *sched) touchAt(t *thread, p unsafe.Pointer, a *atState) {
	a.id = s.oid(t, p)
	s.setContrib(&a.hobj, hv{}.mix(a.id).mixh(a.rel))
}

// stateKey hashes the whole state at a choice point of the given kind taken on behalf of thread t (nil for a
// scheduling decision).
func (s *sched) stateKey(kind string, t *thread) Key {
	k := hv{0x5ced, 0xc0de}.mix(strHash(kind))
	if t != nil {
		k = k.mix(uint64(t.id) + 1)
	}
	for _, th := range s.threads {
		k = k.mix(uint64(th.st)<<8 | b2u(th.dying) | uint64(th.prio)<<16).mixh(th.h)
		if th.st != tAtOp {
			continue
		}
		r := &th.req
		k = k.op(r.kind).mix(s.oid(th, r.obj))
		switch r.kind {
		case opSelect:
			k = k.mix(b2u(r.def))
			for i := 0; i < r.ncase; i++ {
				k = k.mix(s.oid(th, r.cases[i].ch)<<1 | b2u(r.cases[i].send))
			}
		case opSleep:
			k = k.mix(uint64(th.wake)).mix(b2u(th.woken))
		case opChoose:
			k = k.mix(uint64(r.n))
		case opResume:
			if th.ready != nil {
				k = k.mix(uint64(int64(th.ready.idx))<<1 | b2u(th.ready.ok))
			}
		}
	}
	k = k.mixh(s.objSum).mixh(s.logH).mix(uint64(s.now)).mix(uint64(s.idle)).mix(uint64(s.uuid))
	if s.lastT != nil {
		k = k.mix(uint64(s.lastT.id) + 1)
	}
	if s.jumper != nil {
		k = k.mix(uint64(s.jumper.id) + 0x1001)
	}
	return Key{k.a, k.b}
}

// threadNote mixes a thread-side observation of scheduler state (virtual time, identifier counter) into the
// running thread's chain. It is called by the running thread itself: the actor is parked while a thread runs.
func threadNote(k opKind, v uint64) {
	if s := S; s != nil && s.keys {
		if t := s.cur; t != nil {
			t.h = t.h.op(k).mix(v)
		}
	}
}
