// Package vatomic replaces go.uber.org/atomic in the instrumented client: the operations are real atomics (so the
// race detector sees their synchronisation), each preceded by a scheduling point. (Stores used to be invisible to
// the scheduler: a store right after a `go` statement then formed one atomic step with the spawn, and the new
// goroutine could never observe the value from before the store - which the real runtime allows.)
package vatomic

import (
	"sync/atomic"
	"unsafe"

	"verif/rt"
)

// Bool mirrors go.uber.org/atomic.Bool.
type Bool struct{ v atomic.Bool }

func NewBool(b bool) *Bool { x := &Bool{}; x.v.Store(b); return x }
func (b *Bool) Load() bool {
	if rt.Active() {
		rt.AtomicLoad(unsafe.Pointer(b))
	}
	return b.v.Load()
}
func (b *Bool) Store(v bool) {
	if rt.Active() {
		rt.AtomicRMW(unsafe.Pointer(b))
	}
	b.v.Store(v)
}

// Uint64 mirrors go.uber.org/atomic.Uint64.
type Uint64 struct{ v atomic.Uint64 }

func NewUint64(x uint64) *Uint64 { u := &Uint64{}; u.v.Store(x); return u }
func (u *Uint64) Load() uint64 {
	if rt.Active() {
		rt.AtomicLoad(unsafe.Pointer(u))
	}
	return u.v.Load()
}
func (u *Uint64) rmw() {
	if rt.Active() {
		rt.AtomicRMW(unsafe.Pointer(u))
	}
}
func (u *Uint64) Store(x uint64)      { u.rmw(); u.v.Store(x) }
func (u *Uint64) Add(d uint64) uint64 { u.rmw(); return u.v.Add(d) }
func (u *Uint64) Inc() uint64         { u.rmw(); return u.v.Add(1) }
func (u *Uint64) Dec() uint64         { u.rmw(); return u.v.Add(^uint64(0)) }
func (u *Uint64) Sub(d uint64) uint64 { u.rmw(); return u.v.Add(^(d - 1)) }
