// Package vatomic replaces go.uber.org/atomic in the instrumented client: the operations are real atomics (so the
// race detector sees their synchronisation), preceded by a scheduling point for loads.
package vatomic

import (
	"sync/atomic"

	"verif/rt"
)

// Bool mirrors go.uber.org/atomic.Bool.
type Bool struct{ v atomic.Bool }

func NewBool(b bool) *Bool { x := &Bool{}; x.v.Store(b); return x }
func (b *Bool) Load() bool {
	if rt.Active() {
		rt.AtomicPoint()
	}
	return b.v.Load()
}
func (b *Bool) Store(v bool) { b.v.Store(v) }

// Uint64 mirrors go.uber.org/atomic.Uint64.
type Uint64 struct{ v atomic.Uint64 }

func NewUint64(x uint64) *Uint64 { u := &Uint64{}; u.v.Store(x); return u }
func (u *Uint64) Load() uint64 {
	if rt.Active() {
		rt.AtomicPoint()
	}
	return u.v.Load()
}
func (u *Uint64) Store(x uint64)      { u.v.Store(x) }
func (u *Uint64) Add(d uint64) uint64 { return u.v.Add(d) }
func (u *Uint64) Inc() uint64         { return u.v.Add(1) }
func (u *Uint64) Dec() uint64         { return u.v.Add(^uint64(0)) }
func (u *Uint64) Sub(d uint64) uint64 { return u.v.Add(^(d - 1)) }
