// Package vlog replaces glog in the instrumented packages: same call shapes, no output, no background flusher.
package vlog

// Verbose mirrors glog.Verbose.
type Verbose bool

func V(int) Verbose                  { return false }
func (Verbose) Infof(string, ...any) {}
func (Verbose) Info(...any)          {}
func Infof(string, ...any)           {}
func Info(...any)                    {}
func Warningf(string, ...any)        {}
func Warning(...any)                 {}
func Errorf(string, ...any)          {}
func Error(...any)                   {}
func Exitf(format string, a ...any)  { panic("glog.Exitf called") }
func Fatalf(format string, a ...any) { panic("glog.Fatalf called") }
