// Package rt is the controlled runtime: a cooperative scheduler under which the instrumented gribigo code runs
// one thread at a time, with every synchronisation operation turned into a request to a scheduler actor that
// owns the modelled state of locks, channels, wait groups and the virtual clock, and that takes every
// scheduling / environment decision from a choice vector supplied by the explorer.
//
// IMPORTANT (race builds): this package must be compiled WITHOUT race instrumentation
// (-gcflags=verif/rt/...=-race=false). The hand-off between threads and the actor is hidden from the detector with
// runtime.RaceDisable, and the program-level happens-before edges are declared explicitly with
// RaceAcquire/RaceRelease on tokens (see DESIGN.md appendix A).
package rt

import (
	"fmt"
	"runtime"
	"runtime/debug"
	"sort"
	"strings"
	"sync/atomic"
	"time"
	"unsafe"
)

type opKind uint8

const (
	opNone    opKind = iota
	opResume         // continue after a completed operation (rendezvous partner) or after start
	opYield          // plain scheduling point
	opSpawn          // create a thread
	opExit           // thread function returned / panicked / was killed
	opMLock          // Mutex.Lock
	opMUnlock        // Mutex.Unlock
	opWLock1         // RWMutex.Lock phase 1: take the writer slot and announce
	opWLock2         // RWMutex.Lock phase 2: wait for readers to drain
	opWUnlock
	opRLock
	opRUnlock
	opWgAdd
	opWgWait
	opSend
	opRecv
	opClose
	opSelect
	opSleep
	opChoose
	opQuiesce
	opNote // record an event in the trace (no scheduling)
	opAtomicLoad
	opChanLen // len(ch) (no scheduling)
)

var opNames = [...]string{"none", "resume", "yield", "spawn", "exit", "Mutex.Lock", "Mutex.Unlock", "RWMutex.Lock", "RWMutex.Lock(drain)", "RWMutex.Unlock", "RWMutex.RLock", "RWMutex.RUnlock", "WaitGroup.Add", "WaitGroup.Wait", "chan send", "chan recv", "close", "select", "sleep", "choose", "quiesce", "note", "atomic load", "len(chan)"}

func (k opKind) String() string {
	if int(k) < len(opNames) {
		return opNames[k]
	}
	return fmt.Sprintf("op%d", int(k))
}

const maxSel = 6

type selCase struct {
	ch   unsafe.Pointer
	cap  int
	send bool
	val  any
}

type request struct {
	t     *thread
	kind  opKind
	obj   unsafe.Pointer
	n     int
	val   any
	tok   unsafe.Pointer // token released by the requester before the request (message / back edge / close)
	cases [maxSel]selCase
	ncase int
	def   bool
	dur   time.Duration
	label string
	crash string
	cost  int // Choose: cost of a non-default alternative
}

type grant struct {
	kill bool
	val  any
	ok   bool
	idx  int
	acq  [2]unsafe.Pointer // tokens to acquire after the grant
	thr  *thread           // spawn: the new thread
}

const (
	tRunning = iota
	tAtOp
	tDone
)

type thread struct {
	id    int
	name  string
	gate  chan grant
	st    int
	req   request
	ready *grant // prepared grant of a completed operation (tAtOp with req.kind == opResume)
	dying bool
	// sleep bookkeeping
	wake  time.Duration
	woken bool // another thread performed an operation since this thread went to sleep
	// happens-before hashing (hb.go)
	h    hv
	nobj int
	// prio: the default scheduler prefers lower values (rt.GoPrio); all enabled threads remain alternatives.
	prio int
}

// ChoicePoint is one recorded decision.
type ChoicePoint struct {
	Kind   string // "sched", "choose", "select", "partner"
	N      int    // number of alternatives
	Chosen int
	// Cost of choosing alternative i>0 (0 for free enumeration). For "sched": 1 if the running thread was still
	// enabled (a preemption), else 0.
	AltCost int
	Label   string
	Key     Key // state key before the decision (Options.Keys, positions beyond the replayed prefix)
}

// Exec is the record of one execution.
type Exec struct {
	Choices  []ChoicePoint
	Steps    int
	Deadlock bool
	Livelock bool
	Crash    string   // first panic with stack
	Blocked  []string // threads that were not finished when the execution ended, with their pending operation
	Trace    []string // when tracing is on
	Notes    []string // rt.Note events (always recorded)
	Events   []Event  // rt.Emit events (always recorded), in execution order
	Aborted  string   // engine-level abort reason (step limit, replay divergence)
	VirtualT time.Duration
	// Pruned: Options.Visit stopped the execution at a choice point whose state had been expanded before; the record
	// ends before that choice point and must not be judged by an oracle.
	Pruned bool
}

// Event is a harness observation recorded through the scheduler (so that harness threads share no memory).
type Event struct {
	Thread int
	Name   string
	Label  string
	Val    any
}

// Cost returns the deviation cost of the executed choice vector.
func (x *Exec) Cost() int {
	c := 0
	for _, p := range x.Choices {
		if p.Chosen > 0 {
			c += p.AltCost
		}
	}
	return c
}

type rwState struct {
	hobj
	wslot     *thread // holder of the inner writer mutex (from phase 1 to Unlock)
	announced bool
	writer    bool // phase 2 completed: the writer holds the lock
	readers   int
}
type muState struct {
	hobj
	held bool
}
type wgState struct {
	hobj
	n int
}
type chMsg struct {
	v   any
	tok unsafe.Pointer
	h   hv
}
type chState struct {
	hobj
	backH    []hv // chain values of completed receives, in order (back edges of a buffered channel)
	cap      int
	buf      []chMsg
	closed   bool
	closeTok unsafe.Pointer
	sent     int              // completed sends
	back     []unsafe.Pointer // back-edge tokens of completed receives, in order
}

type sched struct {
	reqCh   chan request
	threads []*thread
	cur     *thread // the thread that currently runs (thread-side code reads this)
	prefix  []int
	x       *Exec
	rw      map[unsafe.Pointer]*rwState
	mu      map[unsafe.Pointer]*muState
	wg      map[unsafe.Pointer]*wgState
	ch      map[unsafe.Pointer]*chState
	now     time.Duration
	trace   bool
	maxStep int
	uuid    int
	done    chan struct{}
	lastT   *thread // the thread that ran most recently
	idle    int     // consecutive clock jumps without any operation of a thread other than the woken sleeper
	jumper  *thread // the sleeper woken by the last clock jump
	swCost  int
	// happens-before hashing (hb.go)
	mapChoices bool // rt.SetMapOrderChoices
	keys       bool
	chooser    *thread // the thread on whose behalf choose() is being called (nil: scheduling decision)
	visit      func(i int, k Key, cost int) bool
	ids        map[unsafe.Pointer]uint64
	at         map[unsafe.Pointer]*atState
	objSum     hv
	logH       hv
	cost       int
}

var (
	active atomic.Bool
	// S is the scheduler of the execution in progress.
	S *sched
)

// Active reports whether a controlled execution is in progress.
func Active() bool { return active.Load() }

// Options for Run.
type Options struct {
	Prefix   []int // choices to replay; afterwards choice 0 everywhere
	Trace    bool
	MaxSteps int // default 200000
	// SwitchCost is the deviation cost of picking a non-default thread when the running thread is blocked or
	// finished. 0 = classic preemption bounding (such switches are free and all enumerated); 1 = deviation
	// bounding (the default successor is the lowest-numbered enabled thread, any other choice is a deviation).
	SwitchCost int
	// Keys makes the actor compute a happens-before state key at every choice point beyond the prefix (hb.go).
	Keys bool
	// Visit, if set (implies Keys), is asked at every choice point beyond the prefix, before the decision is taken,
	// with the index of the choice point, its state key and the deviation cost spent so far; returning true ends
	// the execution there (Exec.Pruned).
	Visit func(i int, k Key, cost int) bool
}

// Run executes body as thread 0 under the scheduler and returns the execution record. Only one Run at a time per
// process.
func Run(o Options, body func()) *Exec {
	if active.Load() {
		panic("rt.Run: nested run")
	}
	s := &sched{
		reqCh: make(chan request), prefix: o.Prefix, x: &Exec{}, trace: o.Trace, maxStep: o.MaxSteps, swCost: o.SwitchCost,
		rw: map[unsafe.Pointer]*rwState{}, mu: map[unsafe.Pointer]*muState{}, wg: map[unsafe.Pointer]*wgState{}, ch: map[unsafe.Pointer]*chState{},
		done: make(chan struct{}),
		keys: o.Keys || o.Visit != nil, visit: o.Visit, ids: map[unsafe.Pointer]uint64{}, at: map[unsafe.Pointer]*atState{},
	}
	if s.maxStep == 0 {
		s.maxStep = 200000
	}
	S = s
	active.Store(true)
	main := s.newThread("main")
	go threadMain(main, body)
	go s.loop()
	<-s.done
	RaceAcquire(unsafe.Pointer(&endTok))
	active.Store(false)
	S = nil
	return s.x
}

func (s *sched) newThread(name string) *thread {
	t := &thread{id: len(s.threads), name: name, gate: make(chan grant, 1), st: tAtOp}
	t.req = request{t: t, kind: opResume}
	t.ready = &grant{}
	t.h = hv{1, 2}
	s.threads = append(s.threads, t)
	return t
}

func threadMain(t *thread, fn func()) {
	defer func() {
		crash := ""
		if r := recover(); r != nil {
			crash = fmt.Sprintf("panic in thread %d (%s): %v\n%s", t.id, t.name, r, debug.Stack())
		}
		// everything this thread did happens before Run returns (and so before the next execution starts)
		RaceReleaseMerge(unsafe.Pointer(&endTok))
		raceDisable()
		S.reqCh <- request{t: t, kind: opExit, crash: crash}
		raceEnable()
	}()
	raceDisable()
	g := <-t.gate
	raceEnable()
	if g.kill {
		t.dying = true
		return
	}
	fn()
}

// call hands a request to the actor and waits for the grant.
func call(r request) grant {
	s := S
	t := s.cur
	if t == nil {
		panic("rt: synchronisation shim used by a goroutine that is not a scheduler thread")
	}
	if t.dying {
		return grant{idx: -1}
	}
	r.t = t
	raceDisable()
	s.reqCh <- r
	g := <-t.gate
	raceEnable()
	if g.kill {
		t.dying = true
		runtime.Goexit()
	}
	for _, p := range g.acq {
		if p != nil {
			RaceAcquire(p)
		}
	}
	return g
}

// --- actor ---------------------------------------------------------------------------------------------------

func (s *sched) loop() {
	defer close(s.done)
	// start: schedule the main thread.
	for {
		if !s.schedule() {
			break
		}
		r := <-s.reqCh
		s.x.Steps++
		t := r.t
		s.cur = nil
		if s.x.Steps > s.maxStep {
			s.x.Aborted = fmt.Sprintf("step limit %d reached", s.maxStep)
			t.st = tAtOp
			t.req = r
			break
		}
		if s.trace && r.kind == opExit {
			s.x.Trace = append(s.x.Trace, fmt.Sprintf("T%d(%s) exit", t.id, t.name))
		}
		t.st = tAtOp
		t.req = r
		s.lastT = t
		if r.kind == opSleep {
			t.wake = s.now + r.dur
			t.woken = false
		}
		for s.immediate(t) {
			// immediate() granted t again: wait for its next request without a scheduling decision.
			r = <-s.reqCh
			s.x.Steps++
			if r.t != t {
				s.x.Aborted = "internal: request from a thread that is not running"
				break
			}
			t.req = r
			t.st = tAtOp
			if r.kind == opExit {
				break
			}
			if r.kind == opSleep {
				t.wake = s.now + r.dur
				t.woken = false
			}
		}
		if t.req.kind == opExit {
			t.st = tDone
			if t.req.crash != "" && s.x.Crash == "" {
				s.x.Crash = t.req.crash
			}
			if t.id == 0 || t.req.crash != "" {
				break
			}
		}
	}
	s.finish()
}

// immediate executes operations that are not scheduling points and re-grants the same thread at once. It reports
// whether it did (the caller must then wait for the next request without scheduling).
func (s *sched) immediate(t *thread) bool {
	r := &t.req
	var g grant
	switch r.kind {
	case opMUnlock:
		m := s.muOf(r.obj)
		if !m.held {
			s.crashThread(t, "sync: unlock of unlocked mutex")
			return false
		}
		m.held = false
		if s.keys {
			t.h = t.h.op(r.kind).mix(s.oid(t, r.obj))
			m.rel = t.h
			s.touchMu(t, r.obj, m)
		}
	case opWUnlock:
		w := s.rwOf(r.obj)
		if !w.writer {
			s.crashThread(t, "sync: Unlock of unlocked RWMutex")
			return false
		}
		w.writer, w.announced, w.wslot = false, false, nil
		if s.keys {
			t.h = t.h.op(r.kind).mix(s.oid(t, r.obj))
			w.rel, w.relR = t.h, hv{}
			s.touchRW(t, r.obj, w)
		}
	case opRUnlock:
		w := s.rwOf(r.obj)
		if w.readers <= 0 {
			s.crashThread(t, "sync: RUnlock of unlocked RWMutex")
			return false
		}
		w.readers--
		if s.keys {
			t.h = t.h.op(r.kind).mix(s.oid(t, r.obj))
			w.relR = w.relR.add(t.h)
			s.touchRW(t, r.obj, w)
		}
	case opWgAdd:
		w := s.wgOf(r.obj)
		w.n += r.n
		if w.n < 0 {
			s.crashThread(t, "sync: negative WaitGroup counter")
			return false
		}
		if s.keys {
			t.h = t.h.op(r.kind).mix(s.oid(t, r.obj)).mix(uint64(int64(r.n)))
			w.relR = w.relR.add(t.h)
			s.touchWg(t, r.obj, w)
		}
	case opClose:
		c := s.chOf(r.obj, r.n)
		if c.closed {
			s.crashThread(t, "close of closed channel")
			return false
		}
		c.closed = true
		c.closeTok = r.tok
		if s.keys {
			t.h = t.h.op(r.kind).mix(s.oid(t, r.obj))
			c.rel = t.h
			s.touchCh(t, r.obj, c)
		}
		// parked senders on a closed channel panic when they are scheduled (see enabled/perform).
	case opChanLen:
		c := s.chOf(r.obj, r.n)
		g.idx = len(c.buf)
		if s.keys {
			t.h = t.h.op(r.kind).mix(s.oid(t, r.obj)).mix(uint64(len(c.buf)))
		}
	case opAtomicStore:
		if s.keys && r.obj != nil {
			a := s.atOf(r.obj)
			t.h = t.h.op(r.kind).mix(s.oid(t, r.obj)).mixh(a.rel)
			a.rel = t.h
			s.touchAt(t, r.obj, a)
		}
	case opNote:
		if s.keys {
			t.h = t.h.op(r.kind).mix(strHash(r.label))
			s.logH = s.logH.mixh(t.h)
		}
		if r.val != nil || r.n == 1 {
			s.x.Events = append(s.x.Events, Event{Thread: t.id, Name: t.name, Label: r.label, Val: r.val})
		} else {
			s.x.Notes = append(s.x.Notes, r.label)
		}
	default:
		return false
	}
	if s.trace {
		s.x.Trace = append(s.x.Trace, fmt.Sprintf("T%d(%s) %s %s", t.id, t.name, r.kind, r.label))
	}
	t.st = tRunning
	s.cur = t
	t.gate <- g
	return true
}

func (s *sched) crashThread(t *thread, msg string) {
	// The real runtime would panic/throw in the thread; deliver it as a crash verdict.
	if s.x.Crash == "" {
		s.x.Crash = fmt.Sprintf("thread %d (%s): %s", t.id, t.name, msg)
	}
	t.req = request{t: t, kind: opNone}
	// end the execution: make nothing enabled and mark; schedule() sees Crash and stops.
}

func (s *sched) muOf(p unsafe.Pointer) *muState {
	m := s.mu[p]
	if m == nil {
		m = &muState{}
		s.mu[p] = m
	}
	return m
}
func (s *sched) rwOf(p unsafe.Pointer) *rwState {
	m := s.rw[p]
	if m == nil {
		m = &rwState{}
		s.rw[p] = m
	}
	return m
}
func (s *sched) wgOf(p unsafe.Pointer) *wgState {
	m := s.wg[p]
	if m == nil {
		m = &wgState{}
		s.wg[p] = m
	}
	return m
}
func (s *sched) chOf(p unsafe.Pointer, cap int) *chState {
	m := s.ch[p]
	if m == nil {
		m = &chState{cap: cap}
		s.ch[p] = m
	}
	return m
}

// recvReady / sendReady: readiness of a channel operation of thread t, given the other threads' pending operations.
func (s *sched) recvReady(t *thread, p unsafe.Pointer, cap int) bool {
	if p == nil {
		return false
	}
	c := s.chOf(p, cap)
	if len(c.buf) > 0 || c.closed {
		return true
	}
	// Direct hand-off from a sender exists only on unbuffered channels; on a buffered channel with an empty
	// buffer a pending sender is itself enabled and will put its value into the buffer first (FIFO).
	return c.cap == 0 && s.partner(t, p, true) != nil
}

func (s *sched) sendReady(t *thread, p unsafe.Pointer, cap int) bool {
	if p == nil {
		return false
	}
	c := s.chOf(p, cap)
	if c.closed {
		return true // will panic
	}
	if len(c.buf) < c.cap {
		return true
	}
	// rendezvous only on unbuffered channels: with a full buffer a pending receiver takes the oldest buffered
	// value first, it never receives the new one directly.
	return c.cap == 0 && s.partner(t, p, false) != nil
}

// partner finds a thread other than t that is parked in the complementary operation on channel p (lowest id
// first: Go serves waiters in FIFO order; the order in which they parked is itself explored by the scheduler).
func (s *sched) partner(t *thread, p unsafe.Pointer, wantSender bool) *thread {
	for _, o := range s.threads {
		if o == t || o.st != tAtOp {
			continue
		}
		switch o.req.kind {
		case opSend:
			if wantSender && o.req.obj == p {
				return o
			}
		case opRecv:
			if !wantSender && o.req.obj == p {
				return o
			}
		case opSelect:
			if o.req.def {
				continue // a select with a default case never parks
			}
			for i := 0; i < o.req.ncase; i++ {
				c := &o.req.cases[i]
				if c.ch == p && c.send == wantSender {
					return o
				}
			}
		}
	}
	return nil
}

func (s *sched) enabled(t *thread) bool {
	if t.st != tAtOp {
		return false
	}
	r := &t.req
	switch r.kind {
	case opResume, opYield, opSpawn, opChoose, opAtomicLoad:
		return true
	case opMLock:
		return !s.muOf(r.obj).held
	case opWLock1:
		return s.rwOf(r.obj).wslot == nil
	case opWLock2:
		return s.rwOf(r.obj).readers == 0
	case opRLock:
		w := s.rwOf(r.obj)
		return !w.announced
	case opWgWait:
		return s.wgOf(r.obj).n == 0
	case opSend:
		return s.sendReady(t, r.obj, r.n)
	case opRecv:
		return s.recvReady(t, r.obj, r.n)
	case opSelect:
		if r.def {
			return true
		}
		for i := 0; i < r.ncase; i++ {
			c := &r.cases[i]
			if (c.send && s.sendReady(t, c.ch, c.cap)) || (!c.send && s.recvReady(t, c.ch, c.cap)) {
				return true
			}
		}
		return false
	case opSleep:
		// fair polling: a sleeper may wake once some other thread has taken a step since it went to sleep, or
		// when the virtual clock has been advanced to its wake-up time because nothing else could run.
		return t.woken || s.now >= t.wake
	case opQuiesce:
		for _, o := range s.threads {
			if o != t && o.st == tAtOp && o.req.kind != opQuiesce && o.req.kind != opSleep && s.enabled(o) {
				return false
			}
		}
		return true
	}
	return false
}

// choose takes the next decision from the prefix (or the default 0) and records it.
func (s *sched) choose(kind string, n, altCost int, label string) int {
	i := len(s.x.Choices)
	c := 0
	if i < len(s.prefix) {
		c = s.prefix[i]
		if c < 0 || c >= n {
			s.x.Aborted = fmt.Sprintf("replay divergence at choice %d (%s %s): prefix says %d but only %d alternatives", i, kind, label, c, n)
			c = 0
		}
	}
	cp := ChoicePoint{Kind: kind, N: n, Chosen: c, AltCost: altCost, Label: label}
	if s.keys && i >= len(s.prefix) {
		cp.Key = s.stateKey(kind, s.chooser)
		if s.visit != nil && s.visit(i, cp.Key, s.cost) {
			s.x.Pruned = true
			return 0
		}
	}
	if c > 0 {
		s.cost += altCost
	}
	s.x.Choices = append(s.x.Choices, cp)
	return c
}

// schedule picks the next thread, performs its pending operation and grants it. It returns false when the
// execution is over.
func (s *sched) schedule() bool {
	if s.x.Crash != "" || s.x.Aborted != "" || s.x.Pruned {
		return false
	}
	for {
		var en []*thread
		last := s.lastT
		for _, t := range s.threads {
			if s.enabled(t) {
				en = append(en, t)
			}
		}
		if len(en) == 0 {
			// nothing can run: advance the virtual clock to the earliest sleeper, else deadlock.
			var sl *thread
			for _, t := range s.threads {
				if t.st == tAtOp && t.req.kind == opSleep && (sl == nil || t.wake < sl.wake) {
					sl = t
				}
			}
			if sl == nil {
				s.x.Deadlock = true
				return false
			}
			s.idle++
			if s.idle > 3 {
				s.x.Livelock = true
				return false
			}
			s.jumper = sl
			if sl.wake > s.now {
				s.now = sl.wake
			}
			continue
		}
		// canonical order: the thread that ran last first (if still enabled), then ascending (priority, id).
		sort.SliceStable(en, func(i, j int) bool { return en[i].prio < en[j].prio })
		curEnabled := false
		if last != nil {
			for i, t := range en {
				if t == last {
					copy(en[1:i+1], en[:i])
					en[0] = last
					curEnabled = true
					break
				}
			}
		}
		idx := 0
		if len(en) > 1 {
			cost := s.swCost
			if curEnabled {
				cost = 1
			}
			s.chooser = nil
			idx = s.choose("sched", len(en), cost, s.schedLabel(en))
			if s.x.Aborted != "" || s.x.Pruned {
				return false
			}
		}
		t := en[idx]
		if !s.perform(t) {
			if s.x.Crash != "" || s.x.Aborted != "" || s.x.Pruned {
				return false
			}
			continue // the operation moved to a second phase (RWMutex.Lock) or completed a partner; re-schedule
		}
		return true
	}
}

func (s *sched) schedLabel(en []*thread) string {
	if !s.trace {
		return ""
	}
	var sb strings.Builder
	for i, t := range en {
		if i > 0 {
			sb.WriteString(" | ")
		}
		fmt.Fprintf(&sb, "T%d(%s):%s", t.id, t.name, t.req.kind)
	}
	return sb.String()
}

// perform executes the pending operation of t on the modelled state and grants t. It returns false if t was not
// granted (two-phase operation) so that the caller re-schedules.
func (s *sched) perform(t *thread) bool {
	r := &t.req
	var g grant
	switch r.kind {
	case opResume:
		g = *t.ready
		t.ready = nil
	case opYield:
		if s.keys {
			t.h = t.h.op(r.kind)
		}
	case opAtomicLoad:
		if s.keys {
			t.h = t.h.op(r.kind)
			if r.obj != nil {
				a := s.atOf(r.obj)
				t.h = t.h.mix(s.oid(t, r.obj)).mixh(a.rel)
				if r.n == 1 { // read-modify-write
					a.rel = t.h
					s.touchAt(t, r.obj, a)
				}
			}
		}
	case opQuiesce, opSleep:
		if s.keys {
			t.h = t.h.op(r.kind)
		}
	case opSpawn:
		nt := s.newThread(r.label)
		nt.prio = r.n
		g.thr = nt
		if s.keys {
			nt.h = t.h.op(opSpawnChild)
			t.h = t.h.op(r.kind)
		}
	case opChoose:
		s.chooser = t
		g.idx = s.choose("choose", r.n, r.cost, r.label)
		s.chooser = nil
		if s.x.Pruned {
			return false
		}
		if s.keys {
			t.h = t.h.op(r.kind).mix(uint64(g.idx))
		}
	case opMLock:
		m := s.muOf(r.obj)
		m.held = true
		if s.keys {
			t.h = t.h.op(r.kind).mix(s.oid(t, r.obj)).mixh(m.rel)
			s.touchMu(t, r.obj, m)
		}
	case opWLock1:
		w := s.rwOf(r.obj)
		w.wslot = t
		w.announced = true
		if s.keys {
			t.h = t.h.op(r.kind).mix(s.oid(t, r.obj))
			s.touchRW(t, r.obj, w)
		}
		r.kind = opWLock2
		s.lastT = t
		return false
	case opWLock2:
		w := s.rwOf(r.obj)
		w.writer = true
		if s.keys {
			t.h = t.h.op(r.kind).mix(s.oid(t, r.obj)).mixh(w.rel).mixh(w.relR)
			s.touchRW(t, r.obj, w)
		}
	case opRLock:
		w := s.rwOf(r.obj)
		w.readers++
		if s.keys {
			t.h = t.h.op(r.kind).mix(s.oid(t, r.obj)).mixh(w.rel)
			s.touchRW(t, r.obj, w)
		}
	case opWgWait:
		if s.keys {
			w := s.wgOf(r.obj)
			t.h = t.h.op(r.kind).mix(s.oid(t, r.obj)).mixh(w.relR)
		}
	case opSend:
		if !s.doSend(t, r.obj, r.n, r.val, r.tok, &g) {
			return false
		}
	case opRecv:
		s.doRecv(t, r.obj, r.n, r.tok, &g)
	case opSelect:
		var ready []int
		for i := 0; i < r.ncase; i++ {
			c := &r.cases[i]
			if (c.send && s.sendReady(t, c.ch, c.cap)) || (!c.send && s.recvReady(t, c.ch, c.cap)) {
				ready = append(ready, i)
			}
		}
		switch {
		case len(ready) == 0:
			g.idx = -1 // default
			if s.keys {
				t.h = t.h.op(opSelDefault)
			}
		default:
			k := 0
			if len(ready) > 1 {
				s.chooser = t
				k = s.choose("select", len(ready), 0, "")
				s.chooser = nil
				if s.x.Pruned {
					return false
				}
			}
			i := ready[k]
			if s.keys {
				t.h = t.h.mix(0x5e1ec7<<8 | uint64(i))
			}
			g.idx = i
			c := &r.cases[i]
			if c.send {
				if !s.doSend(t, c.ch, c.cap, c.val, r.tok, &g) {
					return false
				}
			} else {
				s.doRecv(t, c.ch, c.cap, r.tok, &g)
			}
			g.idx = i
		}
	default:
		s.x.Aborted = fmt.Sprintf("internal: perform of %s", r.kind)
		return false
	}
	if s.trace {
		s.x.Trace = append(s.x.Trace, fmt.Sprintf("T%d(%s) %s %s", t.id, t.name, r.kind, r.label))
	}
	// activity of t wakes sleepers (fair polling); a woken poller that finds nothing new is "idle".
	if r.kind != opSleep {
		for _, o := range s.threads {
			if o != t && o.st == tAtOp && o.req.kind == opSleep {
				o.woken = true
			}
		}
	}
	if t != s.jumper {
		s.idle = 0
	}
	t.st = tRunning
	s.cur = t
	s.lastT = t
	t.gate <- g
	return true
}

// doSend performs a send of t on channel p. It returns false if the send panicked (closed channel).
func (s *sched) doSend(t *thread, p unsafe.Pointer, cap int, v any, tok unsafe.Pointer, g *grant) bool {
	c := s.chOf(p, cap)
	if c.closed {
		s.crashThread(t, "send on closed channel")
		return false
	}
	if len(c.buf) < c.cap {
		// back edge: the (k-cap)-th receive happens before the k-th send completes
		if k := c.sent - c.cap; k >= 0 && k < len(c.back) {
			g.acq[0] = c.back[k]
		}
		if s.keys {
			t.h = t.h.op(opSend).mix(s.oid(t, p))
			if k := c.sent - c.cap; k >= 0 && k < len(c.backH) {
				t.h = t.h.mixh(c.backH[k])
			}
		}
		c.buf = append(c.buf, chMsg{v: v, tok: tok, h: t.h})
		c.sent++
		if s.keys {
			s.touchCh(t, p, c)
		}
		return true
	}
	// rendezvous with a parked receiver
	o := s.partner(t, p, false)
	og := &grant{val: v, ok: true}
	og.acq[0] = tok
	if o.req.kind == opSelect {
		for i := 0; i < o.req.ncase; i++ {
			if cc := &o.req.cases[i]; cc.ch == p && !cc.send {
				og.idx = i
				break
			}
		}
	}
	g.acq[0] = o.req.tok // the receive happens before the send completes
	c.sent++
	c.back = append(c.back, o.req.tok)
	if s.keys {
		id := s.oid(t, p)
		ht, ho := t.h, o.h
		t.h = ht.op(opSend).mix(id).mixh(ho)
		o.h = ho.op(opRecv).mix(id).mix(uint64(og.idx)).mixh(ht)
		c.backH = append(c.backH, o.h)
	}
	o.req = request{t: o, kind: opResume}
	o.ready = og
	return true
}

func (s *sched) doRecv(t *thread, p unsafe.Pointer, cap int, tok unsafe.Pointer, g *grant) {
	c := s.chOf(p, cap)
	if len(c.buf) > 0 {
		m := c.buf[0]
		c.buf = c.buf[1:]
		g.val, g.ok = m.v, true
		g.acq[0] = m.tok
		c.back = append(c.back, tok)
		if s.keys {
			t.h = t.h.op(opRecv).mix(s.oid(t, p)).mixh(m.h)
			c.backH = append(c.backH, t.h)
			s.touchCh(t, p, c)
		}
		return
	}
	if o := s.partner(t, p, true); o != nil && !c.closed {
		var v any
		if o.req.kind == opSelect {
			for i := 0; i < o.req.ncase; i++ {
				if cc := &o.req.cases[i]; cc.ch == p && cc.send {
					v = cc.val
					o.ready = &grant{idx: i}
					break
				}
			}
		} else {
			v = o.req.val
			o.ready = &grant{}
		}
		g.val, g.ok = v, true
		g.acq[0] = o.req.tok
		o.ready.acq[0] = tok
		c.sent++
		c.back = append(c.back, tok)
		if s.keys {
			id := s.oid(t, p)
			ht, ho := t.h, o.h
			t.h = ht.op(opRecv).mix(id).mixh(ho)
			o.h = ho.op(opSend).mix(id).mix(uint64(o.ready.idx)).mixh(ht)
			c.backH = append(c.backH, t.h)
		}
		o.req = request{t: o, kind: opResume}
		return
	}
	// closed and drained
	g.val, g.ok = nil, false
	g.acq[0] = c.closeTok
	if s.keys {
		t.h = t.h.op(opRecvClosed).mix(s.oid(t, p)).mixh(c.rel)
	}
}

// finish ends the execution: census of unfinished threads, then they are killed one at a time.
func (s *sched) finish() {
	for _, t := range s.threads {
		if t.st != tDone {
			if t.id == 0 && s.x.Crash == "" && s.x.Aborted == "" && !s.x.Deadlock && !s.x.Livelock {
				continue
			}
			s.x.Blocked = append(s.x.Blocked, fmt.Sprintf("T%d(%s) at %s", t.id, t.name, t.req.kind))
		}
	}
	sort.Strings(s.x.Blocked)
	s.x.VirtualT = s.now
	for _, t := range s.threads {
		if t.st == tDone {
			continue
		}
		if t.st == tRunning {
			// cannot happen: only the actor runs now
			continue
		}
		s.cur = t
		t.gate <- grant{kill: true}
		for {
			r := <-s.reqCh
			if r.kind == opExit && r.t == t {
				break
			}
		}
		t.st = tDone
	}
	s.cur = nil
}

var nativeID atomic.Int64

var endTok [16]byte
