package rt

import "math/rand"

func nativeShuffle(n int, swap func(i, j int)) { rand.Shuffle(n, swap) }
