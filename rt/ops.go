package rt

import (
	"fmt"
	"iter"
	"reflect"
	"sort"
	"time"
	"unsafe"
)

type token struct{ _ [16]byte }

func newTok() unsafe.Pointer {
	if !RaceEnabled {
		return nil
	}
	t := unsafe.Pointer(new(token))
	RaceRelease(t)
	return t
}

func chanPtr[T any](ch chan T) unsafe.Pointer    { return *(*unsafe.Pointer)(unsafe.Pointer(&ch)) }
func rchanPtr[T any](ch <-chan T) unsafe.Pointer { return *(*unsafe.Pointer)(unsafe.Pointer(&ch)) }
func schanPtr[T any](ch chan<- T) unsafe.Pointer { return *(*unsafe.Pointer)(unsafe.Pointer(&ch)) }

// Go starts fn as a new thread (a real goroutine in native mode).
func Go(name string, fn func()) { GoPrio(name, 0, fn) }

// GoPrio starts fn as a thread with a scheduling priority: when the running thread blocks or ends, the default
// scheduler continues with the enabled thread of the lowest (prio, id). A background actor started with a high
// value therefore runs, by default, only when nothing else can - and "it runs at THIS point instead" costs a single
// deviation wherever the point is. Every enabled thread stays an alternative at every scheduling point, so the set of
// schedules within a bound changes, the set of all schedules does not.
func GoPrio(name string, prio int, fn func()) {
	if !active.Load() {
		go fn()
		return
	}
	g := call(request{kind: opSpawn, label: name, n: prio})
	if g.thr == nil {
		return // dying
	}
	go threadMain(g.thr, fn)
}

// Send is `ch <- v`.
func Send[T any](ch chan<- T, v T) {
	if !active.Load() {
		ch <- v
		return
	}
	call(request{kind: opSend, obj: schanPtr(ch), n: cap(ch), val: v, tok: newTok()})
}

// Recv is `<-ch`.
func Recv[T any](ch <-chan T) T {
	v, _ := Recv2(ch)
	return v
}

// Recv2 is `v, ok := <-ch`.
func Recv2[T any](ch <-chan T) (T, bool) {
	if !active.Load() {
		v, ok := <-ch
		return v, ok
	}
	g := call(request{kind: opRecv, obj: rchanPtr(ch), n: cap(ch), tok: newTok()})
	var zero T
	if g.val == nil {
		return zero, g.ok
	}
	return g.val.(T), g.ok
}

// Close is close(ch).
func Close[T any](ch chan<- T) {
	if !active.Load() {
		close(ch)
		return
	}
	call(request{kind: opClose, obj: schanPtr(ch), n: cap(ch), tok: newTok()})
}

// Select is the rewritten form of a select statement.
type Select struct {
	def    bool
	native []nativeCase
	req    request
	g      grant
}

type nativeCase struct {
	try  func() bool // non-blocking attempt
	wait func()      // not used
}

// Case is the handle of one select case.
type Case[T any] struct {
	s   *Select
	idx int
	val T
	ok  bool
	ch  <-chan T
}

// NewSelect starts a select with or without a default case.
func NewSelect(hasDefault bool) *Select { return &Select{def: hasDefault} }

// SelRecv adds `case v := <-ch`.
func SelRecv[T any](s *Select, ch <-chan T) *Case[T] {
	c := &Case[T]{s: s, idx: s.req.ncase + len(s.native), ch: ch}
	if !active.Load() {
		s.native = append(s.native, nativeCase{try: func() bool {
			select {
			case v, ok := <-ch:
				c.val, c.ok = v, ok
				return true
			default:
				return false
			}
		}})
		return c
	}
	if s.req.ncase >= maxSel {
		panic("rt: select with too many cases")
	}
	s.req.cases[s.req.ncase] = selCase{ch: rchanPtr(ch), cap: cap(ch)}
	s.req.ncase++
	return c
}

// SelSend adds `case ch <- v`.
func SelSend[T any](s *Select, ch chan<- T, v T) *Case[T] {
	c := &Case[T]{s: s, idx: s.req.ncase + len(s.native)}
	if !active.Load() {
		s.native = append(s.native, nativeCase{try: func() bool {
			select {
			case ch <- v:
				return true
			default:
				return false
			}
		}})
		return c
	}
	if s.req.ncase >= maxSel {
		panic("rt: select with too many cases")
	}
	s.req.cases[s.req.ncase] = selCase{ch: schanPtr(ch), cap: cap(ch), send: true, val: v}
	s.req.ncase++
	return c
}

// Wait blocks until a case is ready and returns its index, or -1 for default.
func (s *Select) Wait() int {
	if !active.Load() {
		// Native mode: poll the cases in order. (Native mode is used by sequential harnesses and by the
		// repository's own tests run on the instrumented tree; fairness among ready cases is not needed there.)
		for {
			for i, c := range s.native {
				if c.try() {
					return i
				}
			}
			if s.def {
				return -1
			}
			time.Sleep(50 * time.Microsecond)
		}
	}
	s.req.kind = opSelect
	s.req.def = s.def
	s.req.tok = newTok()
	s.g = call(s.req)
	return s.g.idx
}

// Val returns the received value of the chosen receive case.
func (c *Case[T]) Val() T {
	v, _ := c.Val2()
	return v
}

// Val2 returns the received value and whether the channel was open.
func (c *Case[T]) Val2() (T, bool) {
	if !active.Load() || c.s.req.kind != opSelect {
		return c.val, c.ok
	}
	var zero T
	if c.s.g.idx != c.idx || c.s.g.val == nil {
		return zero, c.s.g.ok && c.s.g.idx == c.idx
	}
	return c.s.g.val.(T), c.s.g.ok
}

// Sleep is time.Sleep.
func Sleep(d time.Duration) {
	if !active.Load() {
		time.Sleep(d)
		return
	}
	call(request{kind: opSleep, dur: d})
}

// Yield is a plain scheduling point.
func Yield() {
	if active.Load() {
		call(request{kind: opYield})
	}
}

// Quiesce blocks the calling thread until no other thread can run (all others finished, blocked or sleeping).
func Quiesce() {
	if active.Load() {
		call(request{kind: opQuiesce})
	}
}

// Choose is an environment choice point with n alternatives; alternative 0 is the default answer. cost is the
// deviation cost of a non-default alternative (0 = enumerate all alternatives freely).
func Choose(n int, cost int, label string) int {
	if !active.Load() || n <= 1 {
		return 0
	}
	return call(request{kind: opChoose, n: n, cost: cost, label: label}).idx
}

// Note records an event in the execution record.
func Note(format string, a ...any) {
	if active.Load() {
		call(request{kind: opNote, label: fmt.Sprintf(format, a...)})
	}
}

// Emit records a harness observation (label, value) in the execution record; the position in Exec.Events is the
// logical time of the observation.
func Emit(label string, v any) {
	if active.Load() {
		call(request{kind: opNote, label: label, val: v, n: 1, tok: newTok()})
	}
}

// Now returns the virtual time of the execution.
func Now() time.Duration {
	if !active.Load() {
		return 0
	}
	threadNote(opNow, uint64(S.now))
	return S.now
}

// NextID returns a per-execution counter (deterministic replacement for random identifiers).
func NextID() int {
	if !active.Load() {
		return int(nativeID.Add(1))
	}
	S.uuid++
	threadNote(opNextID, uint64(S.uuid))
	return S.uuid
}

// --- thin entry points for the vsync / vatomic shims --------------------------------------------------------

func MutexLock(p unsafe.Pointer)    { call(request{kind: opMLock, obj: p}) }
func MutexUnlock(p unsafe.Pointer)  { call(request{kind: opMUnlock, obj: p}) }
func RWLock(p unsafe.Pointer)       { call(request{kind: opWLock1, obj: p}) }
func RWUnlock(p unsafe.Pointer)     { call(request{kind: opWUnlock, obj: p}) }
func RWRLock(p unsafe.Pointer)      { call(request{kind: opRLock, obj: p}) }
func RWRUnlock(p unsafe.Pointer)    { call(request{kind: opRUnlock, obj: p}) }
func WgAdd(p unsafe.Pointer, n int) { call(request{kind: opWgAdd, obj: p, n: n}) }
func WgWait(p unsafe.Pointer)       { call(request{kind: opWgWait, obj: p}) }
func AtomicPoint()                  { call(request{kind: opAtomicLoad}) }

// AtomicLoad is the scheduling point before an atomic load of the word at p; AtomicRMW likewise for a
// read-modify-write; AtomicStore records a store (not a scheduling point). The real atomic operation is performed
// by the caller; the actor only needs the order of the operations for the happens-before state keys.
func AtomicLoad(p unsafe.Pointer)  { call(request{kind: opAtomicLoad, obj: p}) }
func AtomicRMW(p unsafe.Pointer)   { call(request{kind: opAtomicLoad, obj: p, n: 1}) }
func AtomicStore(p unsafe.Pointer) { call(request{kind: opAtomicStore, obj: p}) }

// --- ordered map iteration ----------------------------------------------------------------------------------

// MapOrder selects the iteration order that RangeMap imposes: bit 0 = descending instead of ascending keys, the
// remaining bits = rotation of that order by MapOrder>>1 positions (Go starts a map iteration at a random position
// and wraps around). Orders 0..5 are all six permutations of a three-element map. Every order is a legal Go map
// iteration order; fixing it makes executions replayable, switching it explores order dependence.
var MapOrder int

// SetMapOrderChoices makes the order of EVERY single map iteration of the execution in progress an environment
// choice (default order, or reversed at the cost of one deviation). Off by default: it adds a choice point per
// iteration. (The flag lives in the scheduler and is read through a non-generic function of this package, which is
// compiled without race instrumentation: RangeMap itself is instantiated - and instrumented - in its callers.)
func SetMapOrderChoices(on bool) {
	if s := S; s != nil {
		s.mapChoices = on
	}
}

func mapOrderChoices() bool {
	s := S
	return s != nil && active.Load() && s.mapChoices
}

// MapOrders returns the orders a harness enumerates: ascending and descending, and with all their rotations by 1
// and 2 as well.
func MapOrders(all bool) []int {
	if all {
		return []int{0, 1, 2, 3, 4, 5}
	}
	return []int{0, 1}
}

// MapOrderName describes a MapOrder value.
func MapOrderName(o int) string {
	n := "ascending"
	if o&1 == 1 {
		n = "descending"
	}
	if o>>1 > 0 {
		n += fmt.Sprintf(" rotated by %d", o>>1)
	}
	return n
}

// ChanLen is len(ch): the number of messages buffered in the scheduler's model of the channel (natively: len).
func ChanLen(ch any) int {
	v := reflect.ValueOf(ch)
	if !active.Load() {
		return v.Len()
	}
	return call(request{kind: opChanLen, obj: v.UnsafePointer(), n: v.Cap()}).idx
}

// After is time.After under virtual time: a thread sleeps d and then delivers one value.
func After(d time.Duration) <-chan time.Time {
	if !active.Load() {
		return time.After(d)
	}
	ch := make(chan time.Time, 1)
	Go("time.After", func() {
		Sleep(d)
		Send(ch, time.Time{})
	})
	return ch
}

// RangeChan is `for v := range ch`: receives through the scheduler until the channel is closed and drained.
func RangeChan[T any, C ~chan T | ~<-chan T](ch C) iter.Seq[T] {
	return func(yield func(T) bool) {
		for {
			v, ok := Recv2((<-chan T)(ch))
			if !ok || !yield(v) {
				return
			}
		}
	}
}

// RangeMap iterates m in a deterministic key order.
func RangeMap[M ~map[K]V, K comparable, V any](m M) iter.Seq2[K, V] {
	return func(yield func(K, V) bool) {
		keys := make([]K, 0, len(m))
		for k := range m {
			keys = append(keys, k)
		}
		sortKeys(keys)
		desc := MapOrder&1 == 1
		if len(keys) > 1 && mapOrderChoices() && Choose(2, 1, "map-order") == 1 {
			// this one iteration runs in the opposite order (two concurrent iterations of equal maps may then
			// disagree, as they may with Go's randomised iteration)
			desc = !desc
		}
		if desc {
			for i, j := 0, len(keys)-1; i < j; i, j = i+1, j-1 {
				keys[i], keys[j] = keys[j], keys[i]
			}
		}
		if r := MapOrder >> 1; r > 0 && len(keys) > 1 {
			r %= len(keys)
			keys = append(keys[r:], keys[:r]...)
		}
		for _, k := range keys {
			v, ok := m[k]
			if !ok {
				continue // deleted during iteration: Go does not produce it either
			}
			if !yield(k, v) {
				return
			}
		}
	}
}

func sortKeys[K comparable](keys []K) {
	switch ks := any(keys).(type) {
	case []string:
		sort.Strings(ks)
	case []uint64:
		sort.Slice(ks, func(i, j int) bool { return ks[i] < ks[j] })
	case []int:
		sort.Ints(ks)
	case []uint32:
		sort.Slice(ks, func(i, j int) bool { return ks[i] < ks[j] })
	case []int32:
		sort.Slice(ks, func(i, j int) bool { return ks[i] < ks[j] })
	default:
		sort.Slice(keys, func(i, j int) bool { return fmt.Sprint(keys[i]) < fmt.Sprint(keys[j]) })
	}
}

// SendCh is the receiver-style form of a send used by the rewriter: the value is converted to the channel's
// element type by ordinary assignability (rt.Send would require identical types for inference).
type SendCh[T any] struct{ ch chan<- T }

// To wraps the channel of a send statement.
func To[T any](ch chan<- T) SendCh[T] { return SendCh[T]{ch: ch} }

// Send is `ch <- v`.
func (c SendCh[T]) Send(v T) { Send(c.ch, v) }

// Sel adds `case ch <- v` to a select.
func (c SendCh[T]) Sel(s *Select, v T) *Case[T] { return SelSend(s, c.ch, v) }

// Shuffle replaces math/rand.Shuffle in instrumented code: natively it shuffles randomly; under a controlled
// execution the permutation is an environment choice (default: identity), so that an explorer can enumerate all
// orders.
func Shuffle(n int, swap func(i, j int)) {
	if !active.Load() {
		nativeShuffle(n, swap)
		return
	}
	// Fisher-Yates with chosen indices: position i is swapped with one of i..n-1 (choice 0 = itself).
	for i := 0; i < n-1; i++ {
		if j := i + Choose(n-i, 0, "shuffle"); j != i {
			swap(i, j)
		}
	}
}
