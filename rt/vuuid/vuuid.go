// Package vuuid replaces github.com/google/uuid in the instrumented packages with a deterministic per-execution
// counter (session identifiers are opaque map keys; determinism makes executions replayable).
package vuuid

import (
	"fmt"

	"verif/rt"
)

// UUID mirrors uuid.UUID as far as the instrumented code uses it.
type UUID struct{ n int }

func New() UUID               { return UUID{n: rt.NextID()} }
func (u UUID) String() string { return fmt.Sprintf("sess-%06d", u.n) }
func NewString() string       { return New().String() }
