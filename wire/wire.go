// Package wire is an in-memory, scheduler-aware gRIBI transport: a spb.GRIBIClient implemented directly on top of
// any spb.GRIBIServer, with the stream contract the code under test relies on (FIFO delivery; everything the
// handler sent is delivered before its status; handler error -> client Recv gets status.Convert(err);
// CloseSend -> server Recv = io.EOF; abort -> both sides fail) and a fault injector. All blocking goes through
// verif/rt, so under a controlled execution every stream operation is a scheduling point; natively it is plain
// channels.
package wire

import (
	"context"
	"io"

	"google.golang.org/grpc"
	"google.golang.org/grpc/codes"
	"google.golang.org/grpc/metadata"
	"google.golang.org/grpc/status"

	"verif/rt"

	spb "github.com/openconfig/gribi/v1/proto/service"
)

const window = 4096 // messages in flight per direction before a Send would block (never reached by harnesses)

// Stub implements spb.GRIBIClient over a server object.
type Stub struct {
	Srv spb.GRIBIServer
	// Modifies lists the Modify streams opened through this stub (for harness-side fault injection and census).
	Modifies []*ModifyStream
	Gets     []*GetStream
	// OnModify, if set, is called with every new Modify stream before any thread can use it (fault set-up).
	OnModify func(st *ModifyStream)
}

// New returns a stub for srv.
func New(srv spb.GRIBIServer) *Stub { return &Stub{Srv: srv} }

// --- Modify --------------------------------------------------------------------------------------------------

// ModifyStream is one bidirectional Modify RPC.
type ModifyStream struct {
	c2s     chan *spb.ModifyRequest
	s2c     chan *spb.ModifyResponse
	abort   chan struct{} // closed by Abort: both directions fail
	done    chan struct{} // closed when the handler has returned and its status is published
	hret    chan struct{} // closed as soon as the handler returns (server-side view)
	cliErr  error         // what the client sees after an abort
	srvErr  error         // what the server sees after an abort
	result  error         // handler result
	closed  bool          // CloseSend called
	aborted bool
	Sent    int // messages the client sent
	Rcvd    int // messages the client received
	// SendFail, if set, makes the client-side Send of message index i (0-based) fail with the given error after
	// aborting the stream (fault injection on the send path).
	SendFailAt int
	SendFail   error
	// SendFailKeepsRecv: the send path fails from that message on, but the stream is not aborted: the client's
	// Recv stays blocked until Abort is called (a failure that reaches the read side later than the write side).
	SendFailKeepsRecv bool
	// RecvFailAt >= 0 makes the client-side Recv number i fail likewise.
	RecvFailAt int
	RecvFail   error
	// RecvFailSendsAccepted: after the injected receive failure the client's Sends are still accepted (and dropped) -
	// a transport that has not yet noticed on its write side that the stream is dead (grpc-go buffers writes), so
	// the receive error is the ONLY report of the failure the client ever gets.
	RecvFailSendsAccepted bool
	recvDead              bool
}

// Modify opens a stream and starts the server handler as a thread.
func (s *Stub) Modify(ctx context.Context, opts ...grpc.CallOption) (grpc.BidiStreamingClient[spb.ModifyRequest, spb.ModifyResponse], error) {
	st := &ModifyStream{
		c2s: make(chan *spb.ModifyRequest, window), s2c: make(chan *spb.ModifyResponse, window),
		abort: make(chan struct{}), done: make(chan struct{}), hret: make(chan struct{}), SendFailAt: -1, RecvFailAt: -1,
	}
	s.Modifies = append(s.Modifies, st)
	if s.OnModify != nil {
		s.OnModify(st)
	}
	rt.Go("server.Modify", func() {
		err := s.Srv.Modify(&modifyServer{st: st})
		st.result = err
		rt.Close(st.hret)
		rt.Close(st.s2c)
		rt.Close(st.done)
	})
	return &modifyClient{st: st, ctx: ctx}, nil
}

// Abort fails the stream in both directions (cancellation or transport failure, depending on code).
func (st *ModifyStream) Abort(code codes.Code) {
	if st.aborted {
		return
	}
	st.aborted = true
	st.cliErr = status.Error(code, "wire: stream aborted")
	st.srvErr = status.Error(codes.Canceled, "wire: context canceled")
	if code == codes.Unavailable {
		st.srvErr = status.Error(codes.Unavailable, "wire: transport is closing")
	}
	rt.Close(st.abort)
}

// HandlerDone reports whether the server handler has returned, and its result.
func (st *ModifyStream) HandlerDone() (bool, error) {
	s := rt.NewSelect(true)
	c := rt.SelRecv(s, st.done)
	_ = c
	if s.Wait() == 0 {
		return true, st.result
	}
	return false, nil
}

// Pending returns the number of responses sent by the server and not yet read by the client. Only meaningful at
// a quiescent point.
func (st *ModifyStream) TryRecv() (*spb.ModifyResponse, error, bool) {
	s := rt.NewSelect(true)
	c := rt.SelRecv(s, st.s2c)
	if s.Wait() != 0 {
		return nil, nil, false
	}
	m, ok := c.Val2()
	if !ok {
		return nil, finalStatus(st.result), true
	}
	st.Rcvd++
	return m, nil, true
}

func finalStatus(err error) error {
	if err == nil {
		return io.EOF
	}
	return status.Convert(err).Err()
}

type modifyClient struct {
	st  *ModifyStream
	ctx context.Context
}

func (c *modifyClient) Send(m *spb.ModifyRequest) error {
	st := c.st
	if st.SendFailAt >= 0 && st.SendFailKeepsRecv && st.Sent >= st.SendFailAt && !st.aborted {
		st.Sent++
		return st.SendFail
	}
	if st.SendFailAt >= 0 && st.Sent == st.SendFailAt {
		st.Abort(status.Code(st.SendFail))
		st.Sent++
		return st.SendFail
	}
	if st.recvDead && st.RecvFailSendsAccepted {
		st.Sent++
		return nil
	}
	if st.aborted || st.closed {
		return io.EOF
	}
	// after the handler returned a Send fails with io.EOF (the status is read with Recv)
	s := rt.NewSelect(true)
	d := rt.SelRecv(s, st.done)
	_ = d
	if s.Wait() == 0 {
		return io.EOF
	}
	st.Sent++
	rt.Send(st.c2s, m)
	return nil
}

func (c *modifyClient) Recv() (*spb.ModifyResponse, error) {
	st := c.st
	if st.RecvFailAt >= 0 && st.Rcvd == st.RecvFailAt {
		st.Abort(status.Code(st.RecvFail))
		st.RecvFailAt = -2
		st.recvDead = true
		return nil, st.RecvFail
	}
	s := rt.NewSelect(false)
	cm := rt.SelRecv(s, st.s2c)
	ca := rt.SelRecv(s, st.abort)
	_ = ca
	switch s.Wait() {
	case 0:
		m, ok := cm.Val2()
		if !ok {
			return nil, finalStatus(st.result)
		}
		st.Rcvd++
		return m, nil
	default:
		return nil, st.cliErr
	}
}

func (c *modifyClient) CloseSend() error {
	if !c.st.closed && !c.st.aborted {
		c.st.closed = true
		rt.Close(c.st.c2s)
	}
	return nil
}
func (c *modifyClient) Header() (metadata.MD, error) { return nil, nil }
func (c *modifyClient) Trailer() metadata.MD         { return nil }
func (c *modifyClient) Context() context.Context     { return c.ctx }
func (c *modifyClient) SendMsg(m any) error          { return c.Send(m.(*spb.ModifyRequest)) }
func (c *modifyClient) RecvMsg(m any) error {
	return status.Error(codes.Unimplemented, "wire: RecvMsg")
}

type modifyServer struct{ st *ModifyStream }

func (s *modifyServer) Recv() (*spb.ModifyRequest, error) {
	st := s.st
	sel := rt.NewSelect(false)
	cm := rt.SelRecv(sel, st.c2s)
	ca := rt.SelRecv(sel, st.abort)
	cd := rt.SelRecv(sel, st.hret)
	_, _ = ca, cd
	switch sel.Wait() {
	case 0:
		m, ok := cm.Val2()
		if !ok {
			return nil, io.EOF
		}
		return m, nil
	case 1:
		return nil, st.srvErr
	default:
		// the handler has returned: the stream's context is cancelled (as in gRPC)
		return nil, status.Error(codes.Canceled, "wire: context canceled (handler returned)")
	}
}

func (s *modifyServer) Send(m *spb.ModifyResponse) error {
	st := s.st
	sel := rt.NewSelect(true)
	ca := rt.SelRecv(sel, st.abort)
	cd := rt.SelRecv(sel, st.hret)
	_, _ = ca, cd
	switch sel.Wait() {
	case 0:
		return st.srvErr
	case 1:
		return status.Error(codes.Internal, "wire: SendMsg called after the handler returned")
	}
	rt.Send(st.s2c, m)
	return nil
}
func (s *modifyServer) SetHeader(metadata.MD) error  { return nil }
func (s *modifyServer) SendHeader(metadata.MD) error { return nil }
func (s *modifyServer) SetTrailer(metadata.MD)       {}
func (s *modifyServer) Context() context.Context     { return context.Background() }
func (s *modifyServer) SendMsg(m any) error          { return s.Send(m.(*spb.ModifyResponse)) }
func (s *modifyServer) RecvMsg(m any) error {
	return status.Error(codes.Unimplemented, "wire: RecvMsg")
}

// --- Get -----------------------------------------------------------------------------------------------------

// GetStream is one server-streaming Get RPC.
type GetStream struct {
	s2c     chan *spb.GetResponse
	abort   chan struct{}
	done    chan struct{}
	result  error
	cliErr  error
	aborted bool
	Rcvd    int
}

// Get starts the server handler as a thread.
func (s *Stub) Get(ctx context.Context, in *spb.GetRequest, opts ...grpc.CallOption) (grpc.ServerStreamingClient[spb.GetResponse], error) {
	st := &GetStream{s2c: make(chan *spb.GetResponse, window), abort: make(chan struct{}), done: make(chan struct{})}
	s.Gets = append(s.Gets, st)
	rt.Go("server.Get", func() {
		err := s.Srv.Get(in, &getServer{st: st})
		st.result = err
		rt.Close(st.s2c)
		rt.Close(st.done)
	})
	return &getClient{st: st, ctx: ctx}, nil
}

// Abort abandons the Get: the server's next Send fails, the client's Recv fails.
func (st *GetStream) Abort(code codes.Code) {
	if st.aborted {
		return
	}
	st.aborted = true
	st.cliErr = status.Error(code, "wire: stream aborted")
	rt.Close(st.abort)
}

// HandlerDone reports whether the Get handler returned.
func (st *GetStream) HandlerDone() bool {
	s := rt.NewSelect(true)
	c := rt.SelRecv(s, st.done)
	_ = c
	return s.Wait() == 0
}

type getClient struct {
	st  *GetStream
	ctx context.Context
}

func (c *getClient) Recv() (*spb.GetResponse, error) {
	st := c.st
	s := rt.NewSelect(false)
	cm := rt.SelRecv(s, st.s2c)
	ca := rt.SelRecv(s, st.abort)
	_ = ca
	switch s.Wait() {
	case 0:
		m, ok := cm.Val2()
		if !ok {
			return nil, finalStatus(st.result)
		}
		st.Rcvd++
		return m, nil
	default:
		return nil, st.cliErr
	}
}
func (c *getClient) Header() (metadata.MD, error) { return nil, nil }
func (c *getClient) Trailer() metadata.MD         { return nil }
func (c *getClient) CloseSend() error             { return nil }
func (c *getClient) Context() context.Context     { return c.ctx }
func (c *getClient) SendMsg(m any) error          { return nil }
func (c *getClient) RecvMsg(m any) error          { return status.Error(codes.Unimplemented, "wire: RecvMsg") }

type getServer struct{ st *GetStream }

func (s *getServer) Send(m *spb.GetResponse) error {
	st := s.st
	sel := rt.NewSelect(true)
	ca := rt.SelRecv(sel, st.abort)
	_ = ca
	if sel.Wait() == 0 {
		return status.Error(codes.Canceled, "wire: context canceled")
	}
	rt.Send(st.s2c, m)
	return nil
}
func (s *getServer) SetHeader(metadata.MD) error  { return nil }
func (s *getServer) SendHeader(metadata.MD) error { return nil }
func (s *getServer) SetTrailer(metadata.MD)       {}
func (s *getServer) Context() context.Context     { return context.Background() }
func (s *getServer) SendMsg(m any) error          { return s.Send(m.(*spb.GetResponse)) }
func (s *getServer) RecvMsg(m any) error          { return nil }

// --- Flush ---------------------------------------------------------------------------------------------------

// Flush is a plain call.
func (s *Stub) Flush(ctx context.Context, in *spb.FlushRequest, opts ...grpc.CallOption) (*spb.FlushResponse, error) {
	r, err := s.Srv.Flush(ctx, in)
	if err != nil {
		return nil, status.Convert(err).Err()
	}
	return r, nil
}
