module verif

go 1.25.0

toolchain go1.26.1

require (
	github.com/anishathalye/porcupine v1.3.0
	github.com/openconfig/gribi v1.9.1
	github.com/openconfig/gribigo v0.0.0
	github.com/openconfig/ygot v0.34.0
	google.golang.org/grpc v1.79.3
	google.golang.org/protobuf v1.36.11
)

require (
	github.com/golang/glog v1.2.5 // indirect
	github.com/google/go-cmp v0.7.0 // indirect
	github.com/google/uuid v1.6.0 // indirect
	github.com/kylelemons/godebug v1.1.0 // indirect
	github.com/openconfig/gnmi v0.14.1 // indirect
	github.com/openconfig/goyang v1.6.3 // indirect
	go.uber.org/atomic v1.11.0 // indirect
	golang.org/x/exp v0.0.0-20250218142911-aa4b98e5adaa // indirect
	golang.org/x/net v0.55.0 // indirect
	golang.org/x/sys v0.45.0 // indirect
	golang.org/x/text v0.37.0 // indirect
	google.golang.org/genproto/googleapis/rpc v0.0.0-20260319201613-d00831a3d3e7 // indirect
	lukechampine.com/uint128 v1.3.0 // indirect
)

replace github.com/openconfig/gribigo => /repo
