// Package getenum decides C07 by bounded-exhaustive enumeration on the real code: (a) payload fidelity — every
// subset of the fluent next-hop builder's setters (and the field alphabets of the other kinds) is programmed into
// a real RIB and read back through the real Server.Get over the in-memory transport; (b) scoping — every RIB of a
// catalogue x every (network instance, table) request, compared with the reference model; (c) rebuild —
// rib.FromGetResponses of the Get(ALL) stream reproduces the source contents.
package getenum

import (
	"context"
	"fmt"
	"io"
	"sort"
	"strings"
	"sync"

	"github.com/openconfig/gribigo/fluent"
	"github.com/openconfig/gribigo/rib"
	"github.com/openconfig/gribigo/server"
	"google.golang.org/grpc/status"
	"google.golang.org/protobuf/proto"

	"verif/harness/flushenum"
	"verif/harness/ribx"
	"verif/report"
	"verif/wire"

	aftpb "github.com/openconfig/gribi/v1/proto/gribi_aft"
	enums "github.com/openconfig/gribi/v1/proto/gribi_aft/enums"
	spb "github.com/openconfig/gribi/v1/proto/service"
)

const (
	D = "DEFAULT"
	V = "VRF"
)

var nhSetterNames = []string{"WithIPAddress", "WithInterfaceRef", "WithSubinterfaceRef", "WithMacAddress", "WithIPinIP", "WithNextHopNetworkInstance",
	"WithPopTopLabel", "WithPushedLabelStack", "AddEncapHeader(MPLS)", "AddEncapHeader(UDPV6)", "WithDecapsulateHeader", "WithEncapsulateHeader", "WithPushedLabelStack(single)"}

// newNH returns a fresh fluent next-hop builder as (setters, OpProto).
func newNH() ([]func(), func() (*spb.AFTOperation, error)) {
	b := fluent.NextHopEntry().WithNetworkInstance(D).WithIndex(1)
	return []func(){
		func() { b.WithIPAddress("192.0.2.1") },
		func() { b.WithInterfaceRef("eth0") },
		func() { b.WithSubinterfaceRef("eth1", 7) },
		func() { b.WithMacAddress("00:11:22:33:44:55") },
		func() { b.WithIPinIP("10.1.1.1", "10.2.2.2") },
		func() { b.WithNextHopNetworkInstance(V) },
		func() { b.WithPopTopLabel() },
		func() { b.WithPushedLabelStack(100, 200) },
		func() { b.AddEncapHeader(fluent.MPLSEncapHeader().WithLabels(300, 400)) },
		func() {
			b.AddEncapHeader(fluent.UDPV6EncapHeader().WithDSCP(5).WithDstIP("2001:db8::1").WithSrcIP("2001:db8::2").WithDstUDPPort(6635).WithSrcUDPPort(49152).WithIPTTL(64))
		},
		func() { b.WithDecapsulateHeader(fluent.IPinIP) },
		func() { b.WithEncapsulateHeader(fluent.MPLS) },
		func() { b.WithPushedLabelStack(16) },
	}, b.OpProto
}

// otherPayloads are the field alphabets of the remaining kinds (raw protos: every field of every message that the
// fluent builders cannot set is covered by at least one case here).
func otherPayloads() []struct {
	name string
	pre  []proto.Message // prerequisites installed first (in D)
	e    proto.Message
} {
	type c = struct {
		name string
		pre  []proto.Message
		e    proto.Message
	}
	nh1, nh2 := ribx.NHEntry(1, "1.1.1.1"), ribx.NHEntry(2, "2.2.2.2")
	g1 := ribx.NHGEntry(1, 0, [2]uint64{1, 1})
	var out []c
	// groups: member subsets x weights x backup x colour
	for _, members := range [][][2]uint64{{{1, 0}}, {{1, 1}}, {{1, 3}, {2, 5}}, {{2, 1}, {1, 64}}, {{1, 0}, {2, 0}}} {
		for _, backup := range []uint64{0, 7} {
			for _, colour := range []uint64{0, 9} {
				g := ribx.NHGEntry(5, backup, members...)
				if colour != 0 {
					g.NextHopGroup.Color = ribx.U(colour)
				}
				out = append(out, c{fmt.Sprintf("nhg members=%v backup=%d colour=%d", members, backup, colour), []proto.Message{nh1, nh2}, g})
			}
		}
	}
	// top-level entries: group, group network instance, metadata shapes, decapsulate header
	metas := [][]byte{nil, {}, {0x42}, {0x00, 0x00}, []byte("0123456789abcdef0123456789abcdef")}
	for _, gni := range []string{"", D} {
		for mi, meta := range metas {
			v4 := ribx.V4Entry("10.0.0.0/8", 1, gni, meta)
			v6 := ribx.V6Entry("2001:db8::/32", 1, gni, meta)
			mp := ribx.MPLSEntry(100, 1, gni, meta)
			out = append(out, c{fmt.Sprintf("v4 nhg-ni=%q meta#%d", gni, mi), []proto.Message{nh1, g1}, v4},
				c{fmt.Sprintf("v6 nhg-ni=%q meta#%d", gni, mi), []proto.Message{nh1, g1}, v6},
				c{fmt.Sprintf("mpls nhg-ni=%q meta#%d", gni, mi), []proto.Message{nh1, g1}, mp})
		}
	}
	dh := enums.OpenconfigAftTypesEncapsulationHeaderType_OPENCONFIGAFTTYPESENCAPSULATIONHEADERTYPE_IPV4
	v4d := ribx.V4Entry("10.0.0.0/8", 1, "", nil)
	v4d.Ipv4Entry.DecapsulateHeader = dh
	v6d := ribx.V6Entry("2001:db8::/32", 1, "", nil)
	v6d.Ipv6Entry.DecapsulateHeader = dh
	out = append(out, c{"v4 decapsulate-header", []proto.Message{nh1, g1}, v4d}, c{"v6 decapsulate-header", []proto.Message{nh1, g1}, v6d})
	for n := 0; n <= 2; n++ {
		mp := ribx.MPLSEntry(100, 1, "", nil)
		for i := 0; i < n; i++ {
			mp.LabelEntry.PoppedMplsLabelStack = append(mp.LabelEntry.PoppedMplsLabelStack, &aftpb.Afts_LabelEntry_PoppedMplsLabelStackUnion{PoppedMplsLabelStackUint64: uint64(100 + i)})
		}
		out = append(out, c{fmt.Sprintf("mpls popped-stack=%d", n), []proto.Message{nh1, g1}, mp})
	}
	// next-hop fields without a builder method
	raw := func(name string, f func(n *aftpb.Afts_NextHop)) {
		n := ribx.NHEntry(3, "")
		f(n.NextHop)
		out = append(out, c{"nh " + name, nil, n})
	}
	raw("gre", func(n *aftpb.Afts_NextHop) {
		n.Gre = &aftpb.Afts_NextHop_Gre{SrcIp: ribx.S("10.0.0.1"), DstIp: ribx.S("10.0.0.2"), Ttl: ribx.U(9)}
	})
	raw("vni-label", func(n *aftpb.Afts_NextHop) { n.VniLabel = ribx.U(5001) })
	raw("tunnel-src-ip", func(n *aftpb.Afts_NextHop) { n.TunnelSrcIpAddress = ribx.S("10.9.9.9") })
	raw("pop-top-label=false", func(n *aftpb.Afts_NextHop) { n.PopTopLabel = ribx.Bool(false) })
	raw("encap-header gre", func(n *aftpb.Afts_NextHop) {
		n.EncapHeader = []*aftpb.Afts_NextHop_EncapHeaderKey{{Index: 1, EncapHeader: &aftpb.Afts_NextHop_EncapHeader{
			Type: enums.OpenconfigAftTypesEncapsulationHeaderType_OPENCONFIGAFTTYPESENCAPSULATIONHEADERTYPE_GRE,
			Gre:  &aftpb.Afts_NextHop_EncapHeader_Gre{SrcIp: ribx.S("10.0.0.1"), DstIp: ribx.S("10.0.0.2"), Ttl: ribx.U(3)}}}}
	})
	raw("encap-header udp-v4", func(n *aftpb.Afts_NextHop) {
		n.EncapHeader = []*aftpb.Afts_NextHop_EncapHeaderKey{{Index: 1, EncapHeader: &aftpb.Afts_NextHop_EncapHeader{
			Type:  enums.OpenconfigAftTypesEncapsulationHeaderType_OPENCONFIGAFTTYPESENCAPSULATIONHEADERTYPE_UDPV4,
			UdpV4: &aftpb.Afts_NextHop_EncapHeader_UdpV4{SrcIp: ribx.S("10.0.0.1"), DstIp: ribx.S("10.0.0.2"), Dscp: ribx.U(3), IpTtl: ribx.U(4), SrcUdpPort: ribx.U(5), DstUdpPort: ribx.U(6)}}}}
	})
	raw("encap-header ipv4+ipv6", func(n *aftpb.Afts_NextHop) {
		n.EncapHeader = []*aftpb.Afts_NextHop_EncapHeaderKey{
			{Index: 2, EncapHeader: &aftpb.Afts_NextHop_EncapHeader{Type: enums.OpenconfigAftTypesEncapsulationHeaderType_OPENCONFIGAFTTYPESENCAPSULATIONHEADERTYPE_IPV6, Ipv6: &aftpb.Afts_NextHop_EncapHeader_Ipv6{SrcIp: ribx.S("2001:db8::1"), DstIp: ribx.S("2001:db8::2")}}},
			{Index: 1, EncapHeader: &aftpb.Afts_NextHop_EncapHeader{Type: enums.OpenconfigAftTypesEncapsulationHeaderType_OPENCONFIGAFTTYPESENCAPSULATIONHEADERTYPE_IPV4, Ipv4: &aftpb.Afts_NextHop_EncapHeader_Ipv4{SrcIp: ribx.S("10.0.0.1"), DstIp: ribx.S("10.0.0.2")}}},
		}
	})
	raw("encap-header mpls traffic-class", func(n *aftpb.Afts_NextHop) {
		n.EncapHeader = []*aftpb.Afts_NextHop_EncapHeaderKey{{Index: 1, EncapHeader: &aftpb.Afts_NextHop_EncapHeader{
			Type: enums.OpenconfigAftTypesEncapsulationHeaderType_OPENCONFIGAFTTYPESENCAPSULATIONHEADERTYPE_MPLS,
			Mpls: &aftpb.Afts_NextHop_EncapHeader_Mpls{TrafficClass: ribx.U(5), MplsLabelStack: []*aftpb.Afts_NextHop_EncapHeader_Mpls_MplsLabelStackUnion{{MplsLabelStackUint64: 77}}}}}}
	})
	return out
}

// get runs the real Get RPC through the in-memory transport and collects the stream.
func get(s *server.Server, req *spb.GetRequest) ([]*spb.GetResponse, error) {
	st, err := wire.New(s).Get(context.Background(), req)
	if err != nil {
		return nil, err
	}
	var out []*spb.GetResponse
	for {
		r, err := st.Recv()
		if err == io.EOF {
			return out, nil
		}
		if err != nil {
			return out, err
		}
		out = append(out, r)
	}
}

func nameReq(ni string, t spb.AFTType) *spb.GetRequest {
	return &spb.GetRequest{NetworkInstance: &spb.GetRequest_Name{Name: ni}, Aft: t}
}
func allReq(t spb.AFTType) *spb.GetRequest {
	return &spb.GetRequest{NetworkInstance: &spb.GetRequest_All{All: &spb.Empty{}}, Aft: t}
}

// entriesOf flattens responses into "ni|kind|key" -> canonical payload, reporting duplicates.
func entriesOf(rs []*spb.GetResponse) (map[string]string, []string) {
	out := map[string]string{}
	var dups []string
	for _, r := range rs {
		for _, e := range r.GetEntry() {
			var k ribx.Kind
			var key string
			var p proto.Message
			switch t := e.GetEntry().(type) {
			case *spb.AFTEntry_Ipv4:
				k, key, p = ribx.V4, t.Ipv4.GetPrefix(), t.Ipv4
			case *spb.AFTEntry_Ipv6:
				k, key, p = ribx.V6, t.Ipv6.GetPrefix(), t.Ipv6
			case *spb.AFTEntry_Mpls:
				k, key, p = ribx.MPLS, fmt.Sprint(t.Mpls.GetLabelUint64()), t.Mpls
			case *spb.AFTEntry_NextHopGroup:
				k, key, p = ribx.NHG, fmt.Sprint(t.NextHopGroup.GetId()), t.NextHopGroup
			case *spb.AFTEntry_NextHop:
				k, key, p = ribx.NH, fmt.Sprint(t.NextHop.GetIndex()), t.NextHop
			default:
				dups = append(dups, fmt.Sprintf("entry of unexpected type %T", t))
				continue
			}
			id := e.GetNetworkInstance() + "|" + k.String() + "|" + key
			if _, ok := out[id]; ok {
				dups = append(dups, "duplicate "+id)
			}
			out[id] = ribx.CanonPayload(p)
		}
	}
	return out, dups
}

type fail struct{ sig, what string }

// fidelity programs one entry (after its prerequisites) and reads it back.
func fidelity(name string, pre []proto.Message, op *spb.AFTOperation) (string, []fail) {
	s, err := server.New(server.WithVRFs([]string{V}))
	if err != nil {
		return "engine", []fail{{"engine/server", err.Error()}}
	}
	r := s.VerifRIB()
	for i, p := range pre {
		if oks, _, err := r.AddEntry(D, ribx.Op(uint64(100+i), D, spb.AFTOperation_ADD, p)); err != nil || len(oks) == 0 {
			return "engine", []fail{{"engine/prerequisite", fmt.Sprintf("%s: prerequisite %d not installed: %v", name, i, err)}}
		}
	}
	oks, fails, err := r.AddEntry(op.GetNetworkInstance(), op)
	if err != nil || len(oks) == 0 {
		why := fmt.Sprint(err)
		if len(fails) > 0 {
			why = fails[0].Error
		}
		_ = why
		return "rejected", nil // schema-rejected combinations create no expectation (C12 covers rejection)
	}
	k, key, payload := ribx.Describe(op)
	id := op.GetNetworkInstance() + "|" + k.String() + "|" + key
	var out []fail
	rs, err := get(s, allReq(spb.AFTType_ALL))
	if err != nil {
		return "get-error", []fail{{"C07/get-error", fmt.Sprintf("%s: Get(ALL) failed: %v", name, err)}}
	}
	got, dups := entriesOf(rs)
	for _, d := range dups {
		out = append(out, fail{"C07/duplicate-or-unknown-entry", name + ": " + d})
	}
	gp, ok := got[id]
	switch {
	case !ok:
		out = append(out, fail{"C07/programmed-entry-missing-from-get/" + k.String(), fmt.Sprintf("%s: %s acknowledged but not returned", name, id)})
	case gp != ribx.CanonPayload(payload):
		out = append(out, fail{"C07/payload-differs/" + k.String() + "/" + lostFields(payload, rs, id), fmt.Sprintf("%s: programmed {%s} but Get returned {%s}", name, ribx.Text(payload), textOf(rs, id))})
	}
	if len(got) != len(pre)+1 {
		out = append(out, fail{"C07/unexpected-entries", fmt.Sprintf("%s: Get(ALL) returned %d entries, %d are installed", name, len(got), len(pre)+1)})
	}
	return "acked", out
}

func textOf(rs []*spb.GetResponse, id string) string {
	for _, r := range rs {
		for _, e := range r.GetEntry() {
			if strings.HasPrefix(id, e.GetNetworkInstance()+"|") {
				m, _ := entriesOf([]*spb.GetResponse{{Entry: []*spb.AFTEntry{e}}})
				if _, ok := m[id]; ok {
					return ribx.Text(e)
				}
			}
		}
	}
	return "?"
}

// lostFields names the payload fields that differ (stable signature component): for each field of the inner
// message, both *Key messages are reduced to that single field and compared canonically (keyed lists as sets).
func lostFields(want proto.Message, rs []*spb.GetResponse, id string) string {
	var got proto.Message
	for _, r := range rs {
		for _, e := range r.GetEntry() {
			m, _ := entriesOf([]*spb.GetResponse{{Entry: []*spb.AFTEntry{e}}})
			if _, ok := m[id]; ok {
				switch t := e.GetEntry().(type) {
				case *spb.AFTEntry_NextHop:
					got = t.NextHop
				case *spb.AFTEntry_NextHopGroup:
					got = t.NextHopGroup
				case *spb.AFTEntry_Ipv4:
					got = t.Ipv4
				case *spb.AFTEntry_Ipv6:
					got = t.Ipv6
				case *spb.AFTEntry_Mpls:
					got = t.Mpls
				}
			}
		}
	}
	if got == nil || got.ProtoReflect().Descriptor() != want.ProtoReflect().Descriptor() {
		return "?"
	}
	inner := func(m proto.Message) proto.Message {
		switch t := m.(type) {
		case *aftpb.Afts_NextHopKey:
			if t.NextHop == nil {
				t.NextHop = &aftpb.Afts_NextHop{}
			}
			return t.NextHop
		case *aftpb.Afts_NextHopGroupKey:
			if t.NextHopGroup == nil {
				t.NextHopGroup = &aftpb.Afts_NextHopGroup{}
			}
			return t.NextHopGroup
		case *aftpb.Afts_Ipv4EntryKey:
			if t.Ipv4Entry == nil {
				t.Ipv4Entry = &aftpb.Afts_Ipv4Entry{}
			}
			return t.Ipv4Entry
		case *aftpb.Afts_Ipv6EntryKey:
			if t.Ipv6Entry == nil {
				t.Ipv6Entry = &aftpb.Afts_Ipv6Entry{}
			}
			return t.Ipv6Entry
		case *aftpb.Afts_LabelEntryKey:
			if t.LabelEntry == nil {
				t.LabelEntry = &aftpb.Afts_LabelEntry{}
			}
			return t.LabelEntry
		}
		return nil
	}
	var names []string
	fds := inner(proto.Clone(want)).ProtoReflect().Descriptor().Fields()
	for i := 0; i < fds.Len(); i++ {
		a, b := proto.Clone(want), proto.Clone(got)
		for j := 0; j < fds.Len(); j++ {
			if j != i {
				inner(a).ProtoReflect().Clear(fds.Get(j))
				inner(b).ProtoReflect().Clear(fds.Get(j))
			}
		}
		if ribx.CanonPayload(a) != ribx.CanonPayload(b) {
			names = append(names, string(fds.Get(i).Name()))
		}
	}
	sort.Strings(names)
	return strings.Join(names, "+")
}

// Run decides C07.
func Run(rep *report.Report, tier string) {
	guardRep = rep
	outcomes := map[string]int{}
	var mu sync.Mutex
	evals := 0
	record := func(oc string, fs []fail, sample any) {
		mu.Lock()
		outcomes[oc]++
		evals++
		mu.Unlock()
		for _, f := range fs {
			rep.Violate(f.sig, f.what, sample)
		}
	}
	// (a) next-hop builder subsets
	n := len(nhSetterNames)
	var masks []int
	for mask := 0; mask < 1<<n; mask++ {
		bits := 0
		for i := 0; i < n; i++ {
			if mask&(1<<i) != 0 {
				bits++
			}
		}
		if true || tier == "thorough" || bits <= 2 || bits == n {
			masks = append(masks, mask)
		}
	}
	par(masks, func(mask int) {
		setters, opProto := newNH()
		var names []string
		for i := 0; i < n; i++ {
			if mask&(1<<i) != 0 {
				setters[i]()
				names = append(names, nhSetterNames[i])
			}
		}
		op, err := opProto()
		if err != nil {
			record("builder-error", nil, nil)
			return
		}
		op.Id, op.Op = 1, spb.AFTOperation_ADD
		oc, fs := fidelity("next-hop built with "+strings.Join(names, ","), nil, op)
		record("nh-"+oc, fs, map[string]any{"builder_calls": names})
	})
	rep.Set("nh_builder_subsets", len(masks))
	rep.Sample(map[string]any{"kind": "next-hop builder subset", "calls": []string{nhSetterNames[0], nhSetterNames[6], nhSetterNames[8]}})
	// (a') other kinds
	others := otherPayloads()
	idx := make([]int, len(others))
	for i := range idx {
		idx[i] = i
	}
	par(idx, func(i int) {
		c := others[i]
		op := ribx.Op(1, D, spb.AFTOperation_ADD, proto.Clone(c.e))
		oc, fs := fidelity(c.name, c.pre, op)
		record("other-"+oc, fs, map[string]any{"payload": c.name})
	})
	rep.Set("other_payloads", len(others))
	// (b)+(c) scoping over the RIB catalogue
	cat := flushenum.CatalogueSize()
	cidx := make([]int, 2*cat) // every RIB of the catalogue, and again with the second network instance created late
	for i := range cidx {
		cidx[i] = i
	}
	nreq := 0
	par(cidx, func(ci int) {
		s, name, err := flushenum.BuildCatalogue(ci % cat)
		if ci >= cat {
			s, name, err = flushenum.BuildCatalogueLate(ci % cat)
		}
		if err != nil {
			record("engine", []fail{{"engine/catalogue", err.Error()}}, nil)
			return
		}
		src, err := ribx.Snapshot(s.VerifRIB())
		if err != nil {
			record("engine", []fail{{"engine/snapshot", err.Error()}}, nil)
			return
		}
		tables := []spb.AFTType{spb.AFTType_IPV4, spb.AFTType_IPV6, spb.AFTType_MPLS, spb.AFTType_NEXTHOP, spb.AFTType_NEXTHOP_GROUP}
		kindOf := map[spb.AFTType]ribx.Kind{spb.AFTType_IPV4: ribx.V4, spb.AFTType_IPV6: ribx.V6, spb.AFTType_MPLS: ribx.MPLS, spb.AFTType_NEXTHOP: ribx.NH, spb.AFTType_NEXTHOP_GROUP: ribx.NHG}
		for _, scope := range []string{D, V, "*"} {
			union := map[string]string{}
			for _, t := range append(append([]spb.AFTType{}, tables...), spb.AFTType_ALL) {
				req := allReq(t)
				if scope != "*" {
					req = nameReq(scope, t)
				}
				rs, err := get(s, req)
				cname := fmt.Sprintf("rib=%s get(ni=%s, aft=%s)", name, scope, t)
				var fs []fail
				if err != nil {
					fs = append(fs, fail{"C07/get-error", fmt.Sprintf("%s failed: %v", cname, err)})
					record("scope-error", fs, map[string]any{"case": cname})
					continue
				}
				got, dups := entriesOf(rs)
				for _, d := range dups {
					fs = append(fs, fail{"C07/duplicate-or-unknown-entry", cname + ": " + d})
				}
				want := map[string]string{}
				for id, e := range src.E {
					if (scope == "*" || e.NI == scope) && (t == spb.AFTType_ALL || kindOf[t] == e.Kind) {
						want[id] = ribx.CanonPayload(e.Payload)
					}
				}
				if t == spb.AFTType_ALL {
					// ALL is the disjoint union of the per-table Gets
					if d := diffMaps(union, got); d != "" {
						fs = append(fs, fail{"C07/all-is-not-union-of-tables", cname + ": " + d})
					}
				} else {
					for k, v := range got {
						union[k] = v
					}
				}
				if d := diffMaps(want, got); d != "" {
					fs = append(fs, fail{"C07/get-scope-differs-from-installed/" + classify(want, got), cname + ": " + d})
				}
				if t == spb.AFTType_ALL && scope == "*" {
					rb, err := rib.FromGetResponses(D, rs)
					if err != nil {
						fs = append(fs, fail{"C07/rebuild-error", cname + ": FromGetResponses: " + err.Error()})
					} else if m2, err := ribx.Snapshot(rb); err != nil {
						fs = append(fs, fail{"C07/rebuild-error", cname + ": " + err.Error()})
					} else if d := ribx.Diff(src, m2); d != "" {
						fs = append(fs, fail{"C07/rebuilt-rib-differs/" + ribx.DiffKinds(src, m2), cname + ": rebuilding from the responses: " + d})
					}
				}
				mu.Lock()
				nreq++
				mu.Unlock()
				oc := "scope-nonempty"
				if len(want) == 0 {
					oc = "scope-empty"
				}
				record(oc, fs, map[string]any{"case": cname})
			}
		}
		// requests that define no scope: unknown / empty instance name, unsupported or invalid table: must not
		// return entries and must terminate (OK-empty or an error status are both acceptable).
		for _, req := range []*spb.GetRequest{nameReq("NOPE", spb.AFTType_ALL), nameReq("", spb.AFTType_ALL), nameReq(D, spb.AFTType_POLICY_FORWARDING), nameReq(D, spb.AFTType_MAC), nameReq(D, spb.AFTType_INVALID), {Aft: spb.AFTType_ALL}} {
			rs, err := get(s, req)
			got, _ := entriesOf(rs)
			var fs []fail
			if len(got) > 0 {
				fs = append(fs, fail{"C07/entries-for-undefined-scope", fmt.Sprintf("rib=%s get(%s) returned %d entries (status %v)", name, ribx.Text(req), len(got), status.Code(err))})
			}
			record("undefined-scope", fs, map[string]any{"request": ribx.Text(req)})
		}
	})
	rep.Set("scoping_requests", nreq)
	rep.Sample(map[string]any{"kind": "scoping", "rib": "all-kinds-both-instances", "request": "ni=VRF aft=NEXTHOP_GROUP"})
	rep.Set("evaluations", evals)
	rep.Set("distinct_nontrivial", evals-outcomes["nh-rejected"]-outcomes["other-rejected"])
	rep.Set("states", evals)
	rep.Set("transitions", evals)
	rep.Set("traces_validated_against_impl", evals)
	rep.Set("rule", "one case per builder-call subset / payload alphabet element / (catalogue RIB, scope, table) request; all distinct by construction; schema-rejected payloads are trivial (no expectation)")
	rep.Set("exhaustive", true)
	rep.Set("distinct_outcomes", outcomes)
}

func classify(want, got map[string]string) string {
	set := map[string]bool{}
	for k, v := range want {
		g, ok := got[k]
		kind := strings.Split(k, "|")[1]
		if !ok {
			set["missing-"+kind] = true
		} else if g != v {
			set["payload-"+kind] = true
		}
	}
	for k := range got {
		if _, ok := want[k]; !ok {
			set["unexpected-"+strings.Split(k, "|")[1]] = true
		}
	}
	var out []string
	for k := range set {
		out = append(out, k)
	}
	sort.Strings(out)
	return strings.Join(out, "+")
}

func diffMaps(want, got map[string]string) string {
	var out []string
	for k, v := range want {
		if g, ok := got[k]; !ok {
			out = append(out, "missing "+k)
		} else if g != v {
			out = append(out, "payload differs for "+k)
		}
	}
	for k := range got {
		if _, ok := want[k]; !ok {
			out = append(out, "unexpected "+k)
		}
	}
	sort.Strings(out)
	if len(out) > 4 {
		out = append(out[:4], fmt.Sprintf("(+%d more)", len(out)-4))
	}
	return strings.Join(out, "; ")
}

// guardRep receives a violation when a case panics (see report.Guard).
var guardRep *report.Report

func par(items []int, f func(int)) {
	var wg sync.WaitGroup
	ch := make(chan int)
	for w := 0; w < 16; w++ {
		wg.Add(1)
		go func() {
			defer wg.Done()
			for i := range ch {
				guardRep.Guard(fmt.Sprintf("case %d", i), map[string]any{"case_index": i}, func() { f(i) })
			}
		}()
	}
	for _, i := range items {
		ch <- i
	}
	close(ch)
	wg.Wait()
}
