package compl

import (
	"context"
	"fmt"
	"sort"
	"strings"
	"sync"
	"time"

	aftpb "github.com/openconfig/gribi/v1/proto/gribi_aft"
	"github.com/openconfig/gribigo/compliance"
	"github.com/openconfig/gribigo/server"
	"google.golang.org/grpc"
	"google.golang.org/grpc/codes"
	"google.golang.org/grpc/status"
	"google.golang.org/protobuf/proto"

	"verif/harness/ribx"
	"verif/mc"
	"verif/report"
	"verif/rt"

	spb "github.com/openconfig/gribi/v1/proto/service"
)

// faulty wraps the reference server at the gRIBI API and breaks exactly one protocol requirement.
type faulty struct {
	spb.UnimplementedGRIBIServer
	inner *server.Server
	kind  string

	mu        sync.Mutex
	maxElec   uint64             // highest election id (low word) announced on any stream
	prevMax   uint64             // the same before the message being handled
	installed map[string]bool    // keys acknowledged as programmed (idempotent-delete fault)
	lastGet   []*spb.GetResponse // previous Get result (stale-get fault)
	hadGet    bool
	streams   []*modWrap             // open Modify streams (results-broadcast fault)
	first     *spb.SessionParameters // parameters of the first session that negotiated (mismatched-params fault)
	primary   *modWrap               // stream of the last winning announcement (flush-on-new-primary fault)
}

// errSession is what the session-level faults end a Modify RPC with.
var errSession = status.Error(codes.FailedPrecondition, "injected: session refused")

func newFaulty(s *server.Server, kind string) *faulty {
	return &faulty{inner: s, kind: kind, installed: map[string]bool{}}
}

// faultTable: fault -> what it breaks and the tests written for that requirement (matched on ShortName).
var faultTable = []struct {
	name  string
	what  string
	tests func(tt *compliance.TestSpec) bool
}{
	{"no-fib-ack", "omits FIB_PROGRAMMED acknowledgements", func(tt *compliance.TestSpec) bool { return tt.In.RequiresFIBACK }},
	{"non-primary-programmed", "acknowledges operations stamped with an election id below the highest one announced", func(tt *compliance.TestSpec) bool {
		// (the other election tests only look at election responses, they send no operation with a stale id)
		return has(tt, "Incrementing election ID is honoured, and older IDs are rejected")
	}},
	{"idempotent-delete-fails", "answers FAILED to a DELETE of an entry that is not installed", func(tt *compliance.TestSpec) bool { return has(tt, "Idempotent Delete entry") }},
	{"get-drops-entry", "omits one installed entry from Get", func(tt *compliance.TestSpec) bool {
		return has(tt, "Get for installed NH -", "Get for installed NHG -", "Get for installed IPv4 Entry -", "Get for installed IPv6 Entry -", "Get for installed chain of entries")
	}},
	{"get-stale", "serves the previous Get result", func(tt *compliance.TestSpec) bool {
		// needs a test that issues two Gets and expects them to differ
		return has(tt, "Flush to specific network instance is honoured")
	}},
	{"flush-noop", "answers OK to Flush without removing anything", func(tt *compliance.TestSpec) bool {
		// ("Flush non-default network instances preserves the default" checks only what must survive)
		return has(tt, "Flush of all entries in default NI by elected master", "Flush from client overriding election is honoured", "Flush to specific network instance is honoured", "Flush all network instances")
	}},
	{"election-off-by-one", "reports an election id one above the real one", func(tt *compliance.TestSpec) bool {
		return has(tt, "Modify RPC Connection with Election ID", "Election - Matching parameters for two clients in election", "Election - Lower election ID from new client", "Election - Sending same election ID from two clients")
	}},
	{"repeated-params-accepted", "accepts SessionParameters sent a second time", func(tt *compliance.TestSpec) bool {
		return has(tt, "Modify RPC Connection with repeated SessionParameters")
	}},
	{"replace-missing-acked", "acknowledges a REPLACE of an entry that does not exist", func(tt *compliance.TestSpec) bool {
		return has(tt, "Ensure failure for a NH entry that does not exist", "Ensure failure for a NHG entry that does not exist", "Ensure failure for an IPv4 entry that does not exist")
	}},
	{"unknown-ni-acked", "acknowledges an operation in a network instance that does not exist", func(tt *compliance.TestSpec) bool {
		return has(tt, "Add to a nonexistent network instance")
	}},
	{"zero-election-id-accepted", "accepts election id zero", func(tt *compliance.TestSpec) bool { return has(tt, "Election - Sending election ID as zero") }},
	{"referenced-delete-acked", "acknowledges the DELETE of a next-hop / group that is still referenced", func(tt *compliance.TestSpec) bool {
		return has(tt, "Delete NH entry that is referenced", "Delete NHG entry that is referenced")
	}},
	{"multi-field-message-accepted", "accepts a ModifyRequest that populates more than one of parameters / election id / operations", func(tt *compliance.TestSpec) bool {
		return has(tt, "Invalid session params and AFT operation in same ModifyRequest", "Invalid update election ID and SessionParams in same ModifyRequest", "Invalid updated election ID and AFTOperation in same ModifyRequest")
	}},
	{"results-broadcast", "sends operation results to every open session", func(tt *compliance.TestSpec) bool {
		return has(tt, "AFTOperation responses must not be sent to other clients")
	}},
	{"mismatched-params-accepted", "accepts session parameters that differ from those of another live session", func(tt *compliance.TestSpec) bool {
		return has(tt, "Election - Ensure client with differing parameters is rejected", "Election - Ensure that a client with mismatched parameters is rejected")
	}},
	{"invalid-ipv4-entry-acked", "acknowledges IPv4 entries with invalid content", func(tt *compliance.TestSpec) bool {
		return has(tt, "Error: Empty NextHopGroup for the IPv4Entry", "Error: Invalid prefix for the IPv4Entry", "Error: Missing NextHopGroup for the IPv4Entry")
	}},
	{"get-wrong-network-instance", "tags every Get entry with another network instance", func(tt *compliance.TestSpec) bool {
		return has(tt, "Get for installed NH -", "Get for installed NHG -", "Get for installed IPv4 Entry -", "Get for installed IPv6 Entry -", "Get for installed chain of entries")
	}},
	{"flush-one-flushes-all", "flushes every network instance when one is named", func(tt *compliance.TestSpec) bool {
		return has(tt, "Flush non-default network instances preserves the default", "Flush to specific network instance is honoured")
	}},
	{"flush-election-unchecked", "does not compare the election id of a Flush", func(tt *compliance.TestSpec) bool {
		return has(tt, "Flush from non-elected master returns error")
	}},
	{"flush-without-instance-accepted", "accepts a Flush that names no network instance", func(tt *compliance.TestSpec) bool {
		return has(tt, "Flush without specifying network instance returns error")
	}},
	{"unsupported-params-accepted", "accepts unsupported persistence / redundancy combinations", func(tt *compliance.TestSpec) bool {
		return has(tt, "Modify RPC Connection with invalid persist/redundancy parameters")
	}},
	{"unannounced-id-programmed", "programs operations stamped with an election id that was never announced", func(tt *compliance.TestSpec) bool {
		return has(tt, "Election - Unannounced master operations are rejected")
	}},
	{"flush-on-new-primary", "drops every entry when another session becomes primary", func(tt *compliance.TestSpec) bool {
		return has(tt, "Election - Active entries after new master connects")
	}},
	{"forward-reference-failed", "answers FAILED to an operation whose references are not installed yet", func(tt *compliance.TestSpec) bool {
		return has(tt, "Add IPv4 entries that are resolved by NHG and NH, in random order")
	}},
	{"implicit-replace-rejected", "answers FAILED to an ADD of a key that is already installed", func(tt *compliance.TestSpec) bool {
		return has(tt, "Implicit replace NH entry", "Implicit replace NHG entry", "Implicit replace IPv4 entry")
	}},
	{"metadata-rejected", "answers FAILED to entries that carry metadata", func(tt *compliance.TestSpec) bool {
		return has(tt, "Add Metadata for IPv4 entry", "Add IPv6 entry with metadata")
	}},
	{"mpls-unsupported", "answers FAILED to every MPLS operation", func(tt *compliance.TestSpec) bool {
		return has(tt, "MPLS add entry with NH label stack", "MPLS delete entry", "MPLS simple programming entry")
	}},
	{"ipv6-unsupported", "answers FAILED to every IPv6 operation", func(tt *compliance.TestSpec) bool {
		return has(tt, "Add IPv6 entry that can be programmed on the server", "Add IPv6 entry with metadata", "Get for installed IPv6 Entry")
	}},
	{"lower-election-id-honoured", "lets a lower election id take the primary role and reports it", func(tt *compliance.TestSpec) bool {
		return has(tt, "Election - Decrementing election ID is ignored", "Election - Lower election ID from new client")
	}},
	{"cross-instance-reference-rejected", "answers FAILED to an entry that references a group of another network instance", func(tt *compliance.TestSpec) bool {
		return has(tt, "Add IPv4 Entry that references a NHG in a different network instance")
	}},
	{"all-primary-election-accepted", "accepts ALL_PRIMARY sessions and election ids sent on them", func(tt *compliance.TestSpec) bool {
		return has(tt, "Election - Ensure that election ID is not accepted in ALL_PRIMARY mode")
	}},
	{"multi-next-hop-group-rejected", "answers FAILED to a group with more than one next-hop", func(tt *compliance.TestSpec) bool {
		return has(tt, "resolved to a next-hop-group containing multiple next-hops")
	}},
	{"identical-next-hop-rejected", "answers FAILED to a next-hop whose contents equal those of an installed one", func(tt *compliance.TestSpec) bool {
		return has(tt, "Add two NextHops with identical contents")
	}},
	{"delete-of-installed-entry-fails", "answers FAILED to the DELETE of an installed, unreferenced entry", func(tt *compliance.TestSpec) bool {
		return has(tt, "Delete IPv4 entry within default network instance", "Delete NHG entry successfully", "Delete NH entry successfully", "Add-Delete-Add for IPv4Entry", "MPLS delete entry")
	}},
	{"ipv4-unsupported", "answers FAILED to every IPv4 ADD", func(tt *compliance.TestSpec) bool {
		return has(tt, "Add IPv4 entry that can be programmed on the server", "Add-Delete-Add for IPv4Entry")
	}},
	{"next-hop-group-unsupported", "answers FAILED to every next-hop-group ADD", func(tt *compliance.TestSpec) bool {
		return has(tt, "Add next-hop-group entry that can be resolved on the server, no referencing IPv4 entries")
	}},
	// (added after the statement-coverage audit: the failure branches of these tests were never taken by any fault)
	{"flush-result-not-ok", "flushes correctly but reports NON_ZERO_REFERENCE_REMAIN instead of OK", func(tt *compliance.TestSpec) bool {
		return has(tt, "Flush of all entries in default NI by elected master", "Flush from client overriding election is honoured", "Flush to specific network instance is honoured", "Flush non-default network instances preserves the default")
	}},
	{"flush-rejected", "rejects every authorised, well-formed Flush with Internal", func(tt *compliance.TestSpec) bool {
		return has(tt, "Flush of all entries in default NI by elected master", "Flush from client overriding election is honoured", "Flush to specific network instance is honoured", "Flush non-default network instances preserves the default")
	}},
	{"flush-not-primary-wrong-code", "rejects the Flush of a non-primary id with InvalidArgument instead of FailedPrecondition", func(tt *compliance.TestSpec) bool {
		return has(tt, "Flush from non-elected master returns error")
	}},
	{"flush-without-instance-wrong-code", "rejects a Flush that names no network instance with FailedPrecondition instead of InvalidArgument", func(tt *compliance.TestSpec) bool {
		return has(tt, "Flush without specifying network instance returns error")
	}},
	{"flush-without-instance-no-details", "rejects a Flush that names no network instance with the right code but without error details", func(tt *compliance.TestSpec) bool {
		return has(tt, "Flush without specifying network instance returns error")
	}},
	{"flush-without-instance-wrong-details", "rejects a Flush that names no network instance with the right code but details that name another reason", func(tt *compliance.TestSpec) bool {
		return has(tt, "Flush without specifying network instance returns error")
	}},
	{"get-rejected", "answers every Get with Internal", func(tt *compliance.TestSpec) bool {
		return has(tt, "Get for installed NH -", "Get for installed NHG -", "Get for installed IPv4 Entry -", "Get for installed IPv6 Entry -", "Get for installed chain of entries")
	}},
	{"second-session-rejected", "ends the Modify RPC of every session that negotiates while another session is connected, although the parameters match", func(tt *compliance.TestSpec) bool {
		return has(tt, "Election - Matching parameters for two clients in election", "Election - Lower election ID from new client", "Election - Sending same election ID from two clients")
	}},
	{"mismatch-ends-both-sessions", "ends the first session too when a second one presents differing parameters", func(tt *compliance.TestSpec) bool {
		return has(tt, "Election - Ensure client with differing parameters is rejected", "Election - Ensure that a client with mismatched parameters is rejected")
	}},
}

func has(tt *compliance.TestSpec, subs ...string) bool {
	for _, s := range subs {
		if strings.Contains(tt.In.ShortName, s) {
			return true
		}
	}
	return false
}

func faultNames() []string {
	var out []string
	for _, f := range faultTable {
		out = append(out, f.name)
	}
	return out
}

// --- Modify ---------------------------------------------------------------------------------------------------

type modWrap struct {
	spb.GRIBI_ModifyServer
	f          *faulty
	params     int
	allPrimary bool
	ops        map[uint64]*spb.AFTOperation
	known      map[string]bool
	kill       bool // the next Recv of this stream fails (session-level faults)
}

func (f *faulty) Modify(ms spb.GRIBI_ModifyServer) error {
	m := &modWrap{GRIBI_ModifyServer: ms, f: f, ops: map[uint64]*spb.AFTOperation{}}
	f.mu.Lock()
	f.streams = append(f.streams, m)
	f.mu.Unlock()
	defer func() {
		f.mu.Lock()
		for i, o := range f.streams {
			if o == m {
				f.streams = append(f.streams[:i:i], f.streams[i+1:]...)
				break
			}
		}
		f.mu.Unlock()
	}()
	return f.inner.Modify(m)
}

func opKey(op *spb.AFTOperation) string {
	k, key, _ := ribx.Describe(op)
	return op.GetNetworkInstance() + "|" + k.String() + "|" + key
}

func (m *modWrap) direct(id uint64, st spb.AFTResult_Status) {
	m.GRIBI_ModifyServer.Send(&spb.ModifyResponse{Result: []*spb.AFTResult{{Id: id, Status: st}}})
}

func (m *modWrap) Recv() (*spb.ModifyRequest, error) {
	for {
		in, err := m.GRIBI_ModifyServer.Recv()
		if err != nil || in == nil {
			return in, err
		}
		f := m.f
		f.mu.Lock()
		if m.kill {
			f.mu.Unlock()
			return nil, errSession
		}
		f.mu.Unlock()
		switch f.kind {
		case "second-session-rejected":
			f.mu.Lock()
			n := len(f.streams)
			f.mu.Unlock()
			if in.Params != nil && n > 1 {
				return nil, errSession
			}
		case "mismatch-ends-both-sessions":
			if in.Params != nil {
				f.mu.Lock()
				differ := f.first != nil && !proto.Equal(f.first, in.Params)
				if f.first == nil {
					f.first = in.Params
				}
				if differ {
					for _, o := range f.streams {
						o.kill = true
					}
				}
				f.mu.Unlock()
				if differ {
					return nil, errSession
				}
			}
		}
		f.mu.Lock()
		f.prevMax = f.maxElec
		if in.ElectionId != nil && in.ElectionId.High == 0 && in.ElectionId.Low > f.maxElec {
			f.maxElec = in.ElectionId.Low
		}
		f.mu.Unlock()
		switch f.kind {
		case "repeated-params-accepted":
			if in.Params != nil {
				m.params++
				if m.params > 1 {
					m.GRIBI_ModifyServer.Send(&spb.ModifyResponse{SessionParamsResult: &spb.SessionParametersResult{Status: spb.SessionParametersResult_OK}})
					continue
				}
			}
		case "multi-field-message-accepted":
			switch {
			case in.Params != nil && (in.ElectionId != nil || len(in.Operation) > 0):
				in = &spb.ModifyRequest{Params: in.Params}
			case in.ElectionId != nil && len(in.Operation) > 0:
				in = &spb.ModifyRequest{ElectionId: in.ElectionId}
			}
		case "mismatched-params-accepted":
			if in.Params != nil {
				f.mu.Lock()
				if f.first == nil {
					f.first = in.Params
				} else {
					in.Params = f.first
				}
				f.mu.Unlock()
			}
		case "unsupported-params-accepted":
			if p := in.Params; p != nil && !(p.Redundancy == spb.SessionParameters_SINGLE_PRIMARY && p.Persistence == spb.SessionParameters_PRESERVE) {
				m.GRIBI_ModifyServer.Send(&spb.ModifyResponse{SessionParamsResult: &spb.SessionParametersResult{Status: spb.SessionParametersResult_OK}})
				continue
			}
		case "flush-on-new-primary":
			if in.ElectionId != nil && in.Params == nil && len(in.Operation) == 0 {
				f.mu.Lock()
				moved := f.primary != nil && f.primary != m && in.ElectionId.Low >= f.maxElec
				if in.ElectionId.Low >= f.maxElec {
					f.primary = m
				}
				f.mu.Unlock()
				if moved {
					f.inner.Flush(context.Background(), &spb.FlushRequest{NetworkInstance: &spb.FlushRequest_All{All: &spb.Empty{}}, Election: &spb.FlushRequest_Override{Override: &spb.Empty{}}})
				}
			}
		case "lower-election-id-honoured":
			if in.ElectionId != nil && in.Params == nil && len(in.Operation) == 0 && in.ElectionId.Low != 0 {
				f.mu.Lock()
				lower := in.ElectionId.High == 0 && in.ElectionId.Low < f.prevMax
				f.mu.Unlock()
				if lower {
					m.GRIBI_ModifyServer.Send(&spb.ModifyResponse{ElectionId: in.ElectionId})
					continue
				}
			}
		case "all-primary-election-accepted":
			if p := in.Params; p != nil && p.Redundancy == spb.SessionParameters_ALL_PRIMARY {
				m.allPrimary = true
				m.GRIBI_ModifyServer.Send(&spb.ModifyResponse{SessionParamsResult: &spb.SessionParametersResult{Status: spb.SessionParametersResult_OK}})
				continue
			}
			if m.allPrimary && in.ElectionId != nil {
				m.GRIBI_ModifyServer.Send(&spb.ModifyResponse{ElectionId: in.ElectionId})
				continue
			}
		case "zero-election-id-accepted":
			if in.ElectionId != nil && in.ElectionId.High == 0 && in.ElectionId.Low == 0 && in.Params == nil && len(in.Operation) == 0 {
				m.GRIBI_ModifyServer.Send(&spb.ModifyResponse{ElectionId: &spb.Uint128{Low: f.maxElec}})
				continue
			}
		}
		if len(in.Operation) == 0 || in.Params != nil || in.ElectionId != nil {
			return in, nil
		}
		var fwd []*spb.AFTOperation
		for _, op := range in.Operation {
			m.ops[op.GetId()] = op
			switch f.kind {
			case "non-primary-programmed":
				f.mu.Lock()
				stale := op.ElectionId != nil && op.ElectionId.High == 0 && op.ElectionId.Low < f.maxElec
				f.mu.Unlock()
				if stale {
					m.direct(op.GetId(), spb.AFTResult_RIB_PROGRAMMED)
					continue
				}
			case "idempotent-delete-fails":
				// tracked at receive time (the response of the previous operation may not have passed yet)
				f.mu.Lock()
				inst := f.installed[opKey(op)]
				if op.GetOp() == spb.AFTOperation_DELETE {
					delete(f.installed, opKey(op))
				} else {
					f.installed[opKey(op)] = true
				}
				f.mu.Unlock()
				if op.GetOp() == spb.AFTOperation_DELETE && !inst {
					m.direct(op.GetId(), spb.AFTResult_FAILED)
					continue
				}
			case "replace-missing-acked":
				if op.GetOp() == spb.AFTOperation_REPLACE {
					op.Op = spb.AFTOperation_ADD
				}
			case "unannounced-id-programmed":
				f.mu.Lock()
				future := op.ElectionId != nil && op.ElectionId.High == 0 && op.ElectionId.Low > f.maxElec
				f.mu.Unlock()
				if future {
					m.direct(op.GetId(), spb.AFTResult_RIB_PROGRAMMED)
					continue
				}
			case "forward-reference-failed":
				if _, _, payload := ribx.Describe(op); payload != nil && op.GetOp() != spb.AFTOperation_DELETE {
					if cur, err := ribx.Snapshot(f.inner.VerifRIB()); err == nil && !cur.Resolvable(op.GetNetworkInstance(), payload) {
						m.direct(op.GetId(), spb.AFTResult_FAILED)
						continue
					}
				}
			case "implicit-replace-rejected":
				if k, key, _ := ribx.Describe(op); op.GetOp() == spb.AFTOperation_ADD {
					if cur, err := ribx.Snapshot(f.inner.VerifRIB()); err == nil && cur.Has(op.GetNetworkInstance(), k, key) {
						m.direct(op.GetId(), spb.AFTResult_FAILED)
						continue
					}
				}
			case "metadata-rejected":
				if len(op.GetIpv4().GetIpv4Entry().GetEntryMetadata().GetValue()) > 0 || len(op.GetIpv6().GetIpv6Entry().GetEntryMetadata().GetValue()) > 0 {
					m.direct(op.GetId(), spb.AFTResult_FAILED)
					continue
				}
			case "mpls-unsupported":
				if op.GetMpls() != nil {
					m.direct(op.GetId(), spb.AFTResult_FAILED)
					continue
				}
			case "ipv6-unsupported":
				if op.GetIpv6() != nil {
					m.direct(op.GetId(), spb.AFTResult_FAILED)
					continue
				}
			case "cross-instance-reference-rejected":
				if ni := op.GetIpv4().GetIpv4Entry().GetNextHopGroupNetworkInstance().GetValue(); ni != "" && ni != op.GetNetworkInstance() {
					m.direct(op.GetId(), spb.AFTResult_FAILED)
					continue
				}
			case "multi-next-hop-group-rejected":
				if op.GetOp() != spb.AFTOperation_DELETE && len(op.GetNextHopGroup().GetNextHopGroup().GetNextHop()) > 1 {
					m.direct(op.GetId(), spb.AFTResult_FAILED)
					continue
				}
			case "identical-next-hop-rejected":
				if nh := op.GetNextHop(); nh != nil && op.GetOp() == spb.AFTOperation_ADD {
					dup := false
					if cur, err := ribx.Snapshot(f.inner.VerifRIB()); err == nil {
						for _, e := range cur.E {
							if o, ok := e.Payload.(*aftpb.Afts_NextHopKey); ok && e.NI == op.GetNetworkInstance() && o.GetIndex() != nh.GetIndex() && proto.Equal(o.GetNextHop(), nh.GetNextHop()) {
								dup = true
							}
						}
					}
					if dup {
						m.direct(op.GetId(), spb.AFTResult_FAILED)
						continue
					}
				}
			case "delete-of-installed-entry-fails":
				if k, key, _ := ribx.Describe(op); op.GetOp() == spb.AFTOperation_DELETE {
					if cur, err := ribx.Snapshot(f.inner.VerifRIB()); err == nil && cur.Has(op.GetNetworkInstance(), k, key) && cur.Referrers(op.GetNetworkInstance(), k, key) == 0 {
						m.direct(op.GetId(), spb.AFTResult_FAILED)
						continue
					}
				}
			case "ipv4-unsupported":
				if op.GetIpv4() != nil && op.GetOp() == spb.AFTOperation_ADD {
					m.direct(op.GetId(), spb.AFTResult_FAILED)
					continue
				}
			case "next-hop-group-unsupported":
				if op.GetNextHopGroup() != nil && op.GetOp() == spb.AFTOperation_ADD {
					m.direct(op.GetId(), spb.AFTResult_FAILED)
					continue
				}
			case "unknown-ni-acked":
				if _, ok := f.inner.VerifRIB().NetworkInstanceRIB(op.GetNetworkInstance()); !ok {
					m.direct(op.GetId(), spb.AFTResult_RIB_PROGRAMMED)
					continue
				}
			}
			fwd = append(fwd, op)
		}
		if len(fwd) == 0 {
			continue
		}
		in.Operation = fwd
		return in, nil
	}
}

func (m *modWrap) Send(r *spb.ModifyResponse) error {
	f := m.f
	switch f.kind {
	case "no-fib-ack":
		var keep []*spb.AFTResult
		for _, ar := range r.GetResult() {
			if ar.GetStatus() != spb.AFTResult_FIB_PROGRAMMED {
				keep = append(keep, ar)
			}
		}
		if len(r.GetResult()) > 0 && len(keep) == 0 {
			return nil
		}
		if len(r.GetResult()) > 0 {
			r = &spb.ModifyResponse{Result: keep}
		}
	case "referenced-delete-acked", "invalid-ipv4-entry-acked":
		var out []*spb.AFTResult
		for _, ar := range r.GetResult() {
			op := m.ops[ar.GetId()]
			hit := false
			if ar.GetStatus() == spb.AFTResult_FAILED && op != nil {
				if f.kind == "referenced-delete-acked" {
					hit = op.GetOp() == spb.AFTOperation_DELETE && (op.GetNextHop() != nil || op.GetNextHopGroup() != nil)
				} else {
					hit = op.GetOp() == spb.AFTOperation_ADD && op.GetIpv4() != nil
				}
			}
			if hit {
				out = append(out, &spb.AFTResult{Id: ar.GetId(), Status: spb.AFTResult_RIB_PROGRAMMED})
			} else {
				out = append(out, ar)
			}
		}
		if len(out) > 0 {
			r = &spb.ModifyResponse{Result: out}
		}
	case "results-broadcast":
		if len(r.GetResult()) > 0 {
			f.mu.Lock()
			others := append([]*modWrap{}, f.streams...)
			f.mu.Unlock()
			for _, o := range others {
				if o != m {
					o.GRIBI_ModifyServer.Send(r)
				}
			}
		}
	case "election-off-by-one":
		if r.GetElectionId() != nil {
			r = &spb.ModifyResponse{ElectionId: &spb.Uint128{High: r.ElectionId.High, Low: r.ElectionId.Low + 1}}
		}
	}
	return m.GRIBI_ModifyServer.Send(r)
}

// --- Get / Flush ----------------------------------------------------------------------------------------------

type getWrap struct {
	spb.GRIBI_GetServer
	f    *faulty
	held []*spb.GetResponse
}

func (g *getWrap) Send(r *spb.GetResponse) error {
	g.held = append(g.held, r)
	return nil
}

func (f *faulty) Get(req *spb.GetRequest, gs grpc.ServerStreamingServer[spb.GetResponse]) error {
	if f.kind == "get-rejected" {
		return status.Error(codes.Internal, "injected: Get refused")
	}
	if f.kind != "get-drops-entry" && f.kind != "get-stale" && f.kind != "get-wrong-network-instance" {
		return f.inner.Get(req, gs)
	}
	w := &getWrap{GRIBI_GetServer: gs, f: f}
	if err := f.inner.Get(req, w); err != nil {
		return err
	}
	out := w.held
	switch f.kind {
	case "get-drops-entry":
		if len(out) > 0 {
			out = out[:len(out)-1]
		}
	case "get-wrong-network-instance":
		for _, r := range out {
			for _, e := range r.GetEntry() {
				e.NetworkInstance = "SOMEWHERE-ELSE"
			}
		}
	case "get-stale":
		f.mu.Lock()
		prev, had := f.lastGet, f.hadGet
		f.lastGet, f.hadGet = w.held, true
		f.mu.Unlock()
		if had {
			out = prev
		}
	}
	for _, r := range out {
		if err := gs.Send(r); err != nil {
			return err
		}
	}
	return nil
}

func (f *faulty) Flush(ctx context.Context, req *spb.FlushRequest) (*spb.FlushResponse, error) {
	switch f.kind {
	case "flush-noop":
		return &spb.FlushResponse{Timestamp: 1, Result: spb.FlushResponse_OK}, nil
	case "flush-one-flushes-all":
		if req.GetName() != "" {
			req = &spb.FlushRequest{Election: req.Election, NetworkInstance: &spb.FlushRequest_All{All: &spb.Empty{}}}
		}
	case "flush-election-unchecked":
		if req.GetId() != nil {
			req = &spb.FlushRequest{NetworkInstance: req.NetworkInstance, Election: &spb.FlushRequest_Override{Override: &spb.Empty{}}}
		}
	case "flush-without-instance-accepted":
		if req.GetNetworkInstance() == nil {
			req = &spb.FlushRequest{Election: req.Election, NetworkInstance: &spb.FlushRequest_All{All: &spb.Empty{}}}
		}
	}
	res, err := f.inner.Flush(ctx, req)
	switch f.kind {
	case "flush-result-not-ok":
		if err == nil {
			res = &spb.FlushResponse{Timestamp: res.GetTimestamp(), Result: spb.FlushResponse_NON_ZERO_REFERENCE_REMAIN}
		}
	case "flush-rejected":
		if err == nil {
			return nil, status.Error(codes.Internal, "injected: Flush refused")
		}
	case "flush-not-primary-wrong-code":
		if status.Code(err) == codes.FailedPrecondition {
			return nil, reCode(err, codes.InvalidArgument, true)
		}
	case "flush-without-instance-wrong-code":
		if req.GetNetworkInstance() == nil && err != nil {
			return nil, reCode(err, codes.FailedPrecondition, true)
		}
	case "flush-without-instance-no-details":
		if req.GetNetworkInstance() == nil && err != nil {
			return nil, reCode(err, status.Code(err), false)
		}
	case "flush-without-instance-wrong-details":
		if req.GetNetworkInstance() == nil && err != nil {
			st, derr := status.New(status.Code(err), status.Convert(err).Message()).WithDetails(&spb.FlushResponseError{Status: spb.FlushResponseError_NOT_PRIMARY})
			if derr != nil {
				panic(derr)
			}
			return nil, st.Err()
		}
	}
	return res, err
}

// reCode rebuilds a status error with another code, keeping (or dropping) its details.
func reCode(err error, c codes.Code, keepDetails bool) error {
	old := status.Convert(err)
	p := old.Proto()
	p.Code = int32(c)
	if !keepDetails {
		p.Details = nil
	}
	return status.FromProto(p).Err()
}

// fault runs every eligible test against the wrapper: the designated tests must fail (the others are recorded).
func fault(rep *report.Report, name string, dl time.Time) {
	var ft *struct {
		name  string
		what  string
		tests func(tt *compliance.TestSpec) bool
	}
	for i := range faultTable {
		if faultTable[i].name == name {
			ft = &faultTable[i]
		}
	}
	if ft == nil {
		rep.EngineError("unknown fault %s", name)
		return
	}
	cfg := Config{Name: "fault:" + name, StartID: 1, DefaultNI: server.DefaultNetworkInstanceName, VRF: "NON-DEFAULT-VRF", Fault: name}
	var failing, designated, missed []string
	for _, tt := range eligible(cfg) {
		if time.Now().After(dl) {
			rep.And("exhaustive", false)
			break
		}
		want := ft.tests(tt)
		if !want {
			continue // only the tests written for the requirement are run against the fault
		}
		designated = append(designated, tt.In.ShortName)
		if strings.Contains(tt.In.ShortName, "random order") {
			// the test shuffles its operations: it is run under every permutation and must fail under at least
			// one (under the dependency order a fault on forward references cannot show)
			perms, bad := 0, 0
			res := mc.DFS(mc.SchedConfig{Name: "fault-shuffle", NoStateCache: true, Bound: 0, SwitchCost: 1, Deadline: dl, MaxSteps: 5000000, Body: func() {
				w := newWorld(cfg)
				rt.Emit("verdict", w.runTest(tt))
			}, Check: func(x *rt.Exec) []mc.Fail {
				perms++
				f := abnormal(x) != ""
				for _, e := range x.Events {
					if v, ok := e.Val.(verdict); ok && !v.pass {
						f = true
					}
				}
				if f {
					bad++
				}
				return nil
			}})
			count(rep, res.Execs, res.Steps, true)
			rep.Set("fault:"+name+"/permutations", map[string]int{"run": perms, "failing": bad})
			if bad > 0 {
				failing = append(failing, tt.In.ShortName)
			} else {
				missed = append(missed, tt.In.ShortName)
				rep.Violate("C19/fault-not-flagged/"+name+"/"+tt.In.ShortName, fmt.Sprintf("against a server that %s, the test %q (written for that requirement) passes under every one of its %d permutations", ft.what, tt.In.ShortName, perms), map[string]any{"fault": name, "test": tt.In.ShortName})
			}
			continue
		}
		vs, _, x := execute(cfg, []*compliance.TestSpec{tt}, nil)
		count(rep, 1, x.Steps, true)
		if len(vs) > 0 && vs[0].skipped {
			designated = designated[:len(designated)-1]
			continue // the suite skips this test itself
		}
		failed := abnormal(x) != "" || (len(vs) > 0 && !vs[0].pass)
		if failed {
			failing = append(failing, tt.In.ShortName)
		} else {
			missed = append(missed, tt.In.ShortName)
			rep.Violate("C19/fault-not-flagged/"+name+"/"+tt.In.ShortName, fmt.Sprintf("against a server that %s, the test %q (written for that requirement) passes", ft.what, tt.In.ShortName), map[string]any{"fault": name, "test": tt.In.ShortName})
		}
	}
	sort.Strings(failing)
	if len(designated) == 0 {
		rep.EngineError("fault %s has no designated tests", name)
	}
	rep.Set("fault:"+name, map[string]any{"breaks": ft.what, "designated_tests": len(designated), "flagged_by": len(failing), "missed": missed})
}
