// Package compl decides C19: the compliance suite itself is the system under test. Whole compliance tests are the
// transitions of an explicit-state search on ONE long-lived reference server behind the in-memory transport, run
// under the controlled runtime (virtual time: the client's 100 ms polls and one-minute timeouts cost nothing).
//   - order independence: closure of the reachable canonical server states under "run any test" (every test must
//     pass from every reachable state => every finite order passes), plus all ordered pairs, for several starting
//     election ids and network-instance names, with every permutation of the "random order" test;
//   - sensitivity: a catalogue of protocol-breaking wrappers around the reference server; the tests written for the
//     broken requirement must fail.
package compl

import (
	"context"
	"fmt"
	"io"
	"os"
	"sort"
	"strings"
	"testing"
	"time"

	"github.com/openconfig/gribigo/compliance"
	"github.com/openconfig/gribigo/fluent"
	"github.com/openconfig/gribigo/rib"
	"github.com/openconfig/gribigo/server"
	"google.golang.org/grpc/codes"
	"google.golang.org/protobuf/proto"

	"verif/harness/ribhist"
	"verif/harness/ribx"
	"verif/mc"
	"verif/report"
	"verif/rt"
	"verif/wire"

	spb "github.com/openconfig/gribi/v1/proto/service"
)

// capTB captures the verdict of one compliance test.
type capTB struct {
	testing.TB
	fatal   string
	errors  []string
	failed  bool
	skipped bool
}

type stopT struct{}

func (c *capTB) Helper()             {}
func (c *capTB) Logf(string, ...any) {}
func (c *capTB) Log(...any)          {}
func (c *capTB) Errorf(f string, a ...any) {
	c.failed = true
	c.errors = append(c.errors, fmt.Sprintf(f, a...))
}
func (c *capTB) Error(a ...any) { c.failed = true; c.errors = append(c.errors, fmt.Sprint(a...)) }
func (c *capTB) Fatalf(f string, a ...any) {
	c.failed, c.fatal = true, fmt.Sprintf(f, a...)
	panic(stopT{})
}
func (c *capTB) Fatal(a ...any)       { c.failed, c.fatal = true, fmt.Sprint(a...); panic(stopT{}) }
func (c *capTB) FailNow()             { c.failed = true; panic(stopT{}) }
func (c *capTB) Fail()                { c.failed = true }
func (c *capTB) Failed() bool         { return c.failed }
func (c *capTB) Name() string         { return "compl" }
func (c *capTB) Cleanup(func())       {}
func (c *capTB) Skipf(string, ...any) { c.skipped = true; panic(stopT{}) }
func (c *capTB) Skip(...any)          { c.skipped = true; panic(stopT{}) }
func (c *capTB) SkipNow()             { c.skipped = true; panic(stopT{}) }

// Config is a suite configuration.
type Config struct {
	Name      string
	StartID   uint64
	DefaultNI string
	VRF       string
	NoFwdRefs bool
	Fault     string // "" = the conformant reference server
}

func (c Config) String() string { return c.Name }

// eligible: the tests the configuration runs (as ccli / the repository's own runner decide).
func eligible(cfg Config) []*compliance.TestSpec {
	var out []*compliance.TestSpec
	for _, tt := range compliance.TestSuite {
		if tt.In.RequiresDisallowedForwardReferences != cfg.NoFwdRefs {
			continue
		}
		out = append(out, tt)
	}
	return out
}

// world is one long-lived server with its transport.
type world struct {
	cfg   Config
	srv   *server.Server
	front spb.GRIBIServer
	stubs []*wire.Stub
}

func newWorld(cfg Config) *world {
	compliance.SetElectionID(cfg.StartID)
	compliance.SetDefaultNetworkInstanceName(cfg.DefaultNI)
	compliance.SetNonDefaultVRFName(cfg.VRF)
	opts := []server.ServerOpt{server.WithVRFs([]string{cfg.VRF})}
	if cfg.NoFwdRefs {
		opts = append(opts, server.WithNoRIBForwardReferences())
	}
	var s *server.Server
	if cfg.DefaultNI == server.DefaultNetworkInstanceName {
		var err error
		if s, err = server.New(opts...); err != nil {
			panic(err)
		}
	} else {
		// a reference server whose default instance has another name (there is no instance "DEFAULT" on it)
		var ropts []rib.RIBOpt
		if cfg.NoFwdRefs {
			ropts = append(ropts, rib.DisableForwardReferences())
		}
		r := rib.New(cfg.DefaultNI, ropts...)
		if err := r.AddNetworkInstance(cfg.VRF); err != nil {
			panic(err)
		}
		fs, err := server.NewFake()
		if err != nil {
			panic(err)
		}
		fs.InjectRIB(r)
		s = fs.Server
	}
	w := &world{cfg: cfg, srv: s, front: s}
	if cfg.Fault != "" {
		w.front = newFaulty(s, cfg.Fault)
	}
	return w
}

// verdict of one test run.
type verdict struct {
	pass    bool
	why     string
	skipped bool
}

// runTest runs one compliance test against the world, the way ccli does (two fresh fluent clients on fresh
// connections; the connections are torn down afterwards).
// forceDisconnect tears every stream of a test down when the test has returned. It is OFF: a session that a test
// leaves open (a client it never stopped) stays connected on a long-lived server, exactly as it does when ccli runs
// the suite in one process, and constrains the tests that follow.
var forceDisconnect = os.Getenv("VERIF_C19_FORCE_DISCONNECT") != ""

func (w *world) runTest(tt *compliance.TestSpec) (v verdict) {
	st1, st2 := wire.New(w.front), wire.New(w.front)
	w.stubs = append(w.stubs, st1, st2)
	c := fluent.NewClient()
	c.Connection().WithStub(st1)
	sc := fluent.NewClient()
	sc.Connection().WithStub(st2)
	opts := []compliance.TestOpt{compliance.SecondClient(sc)}
	t := &capTB{}
	func() {
		defer func() {
			if r := recover(); r != nil {
				if _, ok := r.(stopT); !ok {
					t.failed = true
					t.fatal = fmt.Sprintf("panic: %v", r)
				}
			}
		}()
		tt.In.Fn(c, t, opts...)
	}()
	// as the repository's runner does after each test; then the connections go away
	func() {
		defer func() { recover() }()
		c.Stop(t)
		sc.Stop(t)
	}()
	if forceDisconnect {
		for _, st := range []*wire.Stub{st1, st2} {
			for _, m := range st.Modifies {
				m.Abort(codes.Canceled)
			}
			for _, g := range st.Gets {
				g.Abort(codes.Canceled)
			}
		}
	}
	rt.Quiesce()
	switch {
	case tt.FatalMsg != "":
		if !strings.Contains(t.fatal, tt.FatalMsg) {
			return verdict{pass: false, why: fmt.Sprintf("expected fatal %q, got fatal=%q errors=%v", tt.FatalMsg, t.fatal, t.errors)}
		}
		return verdict{pass: true}
	case tt.ErrorMsg != "":
		if !strings.Contains(strings.Join(t.errors, " "), tt.ErrorMsg) {
			return verdict{pass: false, why: fmt.Sprintf("expected error %q, got fatal=%q errors=%v", tt.ErrorMsg, t.fatal, t.errors)}
		}
		return verdict{pass: true}
	}
	if t.skipped {
		return verdict{pass: true, skipped: true}
	}
	if t.failed {
		why := t.fatal
		if why == "" {
			why = strings.Join(t.errors, "; ")
		}
		return verdict{pass: false, why: why}
	}
	return verdict{pass: true}
}

// canon is the canonical server state between tests: contents, held operations, counters, live sessions and the
// relation of the learnt election id to the suite's counter.
func (w *world) canon(counter uint64) string {
	m, err := ribx.Snapshot(w.srv.VerifRIB())
	rc := "ERR"
	if err == nil {
		rc = m.Canon()
	}
	_, id := w.srv.VerifElection()
	rel := "none"
	if id != nil {
		switch d := int64(counter) - int64(id.Low); {
		case id.High != 0:
			rel = "high-word-set"
		case d < 0:
			rel = "learnt-above-counter"
		case d > 3:
			rel = "counter-ahead-by-4-or-more"
		default:
			rel = fmt.Sprintf("counter-ahead-by-%d", d)
		}
	}
	return fmt.Sprintf("rib=%s held=%s refs=%s sessions=%d election=%s", rc, ribx.PendingCanon(w.srv.VerifRIB()), ribx.RefCanon(w.srv.VerifRIB()), len(w.srv.VerifSessions()), rel)
}

// execute runs a sequence of tests on a fresh world under the controlled runtime and returns the verdict of each
// and the canonical state after each.
func execute(cfg Config, seq []*compliance.TestSpec, prefix []int) (vs []verdict, canons []string, x *rt.Exec) {
	x = rt.Run(rt.Options{Prefix: prefix, MaxSteps: 5000000}, func() {
		w := newWorld(cfg)
		for _, tt := range seq {
			v := w.runTest(tt)
			vs = append(vs, v)
			canons = append(canons, w.canon(compliance.VerifElectionID()))
		}
	})
	return vs, canons, x
}

// abnormal turns scheduler verdicts into a test failure reason.
func abnormal(x *rt.Exec) string {
	switch {
	case x.Crash != "":
		return "panic: " + firstLine(x.Crash)
	case x.Deadlock:
		return fmt.Sprintf("deadlock: %v", x.Blocked)
	case x.Livelock:
		return "a client waits forever (timeout in real time)"
	case x.Aborted != "":
		return "engine: " + x.Aborted
	}
	return ""
}

func firstLine(s string) string {
	if i := strings.IndexByte(s, '\n'); i >= 0 {
		return s[:i]
	}
	return s
}

func configs(tier string) []Config {
	base := []Config{
		{Name: "id1/default-names", StartID: 1, DefaultNI: server.DefaultNetworkInstanceName, VRF: "NON-DEFAULT-VRF"},
		{Name: "id1/default-names/no-forward-references", StartID: 1, DefaultNI: server.DefaultNetworkInstanceName, VRF: "NON-DEFAULT-VRF", NoFwdRefs: true},
	}
	if tier == "thorough" {
		base = append(base,
			Config{Name: "id7/default-names", StartID: 7, DefaultNI: server.DefaultNetworkInstanceName, VRF: "NON-DEFAULT-VRF"},
			Config{Name: "id2^40/default-names", StartID: 1 << 40, DefaultNI: server.DefaultNetworkInstanceName, VRF: "NON-DEFAULT-VRF"},
			// another name for the non-default instance only
			Config{Name: "id1/vrf-x", StartID: 1, DefaultNI: server.DefaultNetworkInstanceName, VRF: "vrf-x"},
		)
	} else {
		base = append(base, Config{Name: "id2^40/default-names", StartID: 1 << 40, DefaultNI: server.DefaultNetworkInstanceName, VRF: "NON-DEFAULT-VRF"})
	}
	// both network instances renamed (the suite is told through its setters, as ccli does)
	base = append(base, Config{Name: "id1/renamed-instances", StartID: 1, DefaultNI: "MAIN-TABLE", VRF: "CUSTOMER-A"})
	return base
}

// --- shards -------------------------------------------------------------------------------------------------------

// Run decides C19.
func Run(rep *report.Report, tier string) {
	var parts []string
	for ci, cfg := range configs(tier) {
		n := len(eligible(cfg))
		parts = append(parts, fmt.Sprintf("closure/%d", ci))
		// ordered pairs, sharded by first test
		step := 1
		if tier != "thorough" && ci > 0 {
			continue // quick: pairs for the main configuration only
		}
		for i := 0; i < n; i += step {
			parts = append(parts, fmt.Sprintf("pairs/%d/%d", ci, i))
		}
	}
	parts = append(parts, "shuffle/0")
	for _, f := range faultNames() {
		parts = append(parts, "fault/"+f)
	}
	// which tests of the suite no fault of the catalogue is aimed at (a test that silently stopped checking its
	// requirement would go unnoticed there)
	var bare []string
	for _, tt := range compliance.TestSuite {
		hit := false
		for _, ft := range faultTable {
			if ft.tests(tt) {
				hit = true
			}
		}
		if !hit {
			bare = append(bare, tt.In.ShortName)
		}
	}
	rep.Set("tests_without_a_fault_aimed_at_them", bare)
	rep.Set("shards", len(parts))
	rep.Shards(parts, 14, nil)
	rep.Set("rule", "a case is a sequence of whole compliance tests run on one long-lived reference server (fresh per sequence): closure search over canonical server states, every ordered pair of tests, every permutation of the random-order test, and every (fault wrapper, designated test) pair; non-trivial = the sequence has at least two tests or targets a fault")
	rep.Sample(map[string]any{"kind": "ordered pair", "config": "id1/default-names", "tests": []string{compliance.TestSuite[3].In.ShortName, compliance.TestSuite[40].In.ShortName}})
}

// Child runs one shard.
func Child(rep *report.Report, tier, part string) {
	f := strings.Split(part, "/")
	dl := ribhist.Budget(tier, 100*time.Second, 25*time.Minute)
	switch f[0] {
	case "closure":
		var ci int
		fmt.Sscan(f[1], &ci)
		closure(rep, configs(tier)[ci], dl)
	case "pairs":
		var ci, i int
		fmt.Sscan(f[1], &ci)
		fmt.Sscan(f[2], &i)
		pairs(rep, configs(tier)[ci], i, dl)
	case "shuffle":
		shuffle(rep, configs(tier)[0], dl)
	case "fault":
		fault(rep, strings.Join(f[1:], "/"), dl)
	}
}

func count(rep *report.Report, n, steps int, nontrivial bool) {
	rep.Add("evaluations", 1)
	rep.Add("states", 1)
	rep.Add("transitions", n)
	rep.Add("traces_validated_against_impl", 1)
	rep.Add("scheduling_steps", steps)
	if nontrivial {
		rep.Add("distinct_nontrivial", 1)
	}
}

// closure: BFS over canonical states; every eligible test must pass from every reachable state.
func closure(rep *report.Report, cfg Config, dl time.Time) {
	tests := eligible(cfg)
	type node struct{ hist []int }
	seen := map[string]bool{}
	_, c0, x0 := execute(cfg, nil, nil)
	_ = c0
	if why := abnormal(x0); why != "" {
		rep.EngineError("closure %s: empty sequence: %s", cfg, why)
		return
	}
	init := "initial"
	seen[init] = true
	frontier := []node{{nil}}
	states, transitions, depth := 1, 0, 0
	closed := false
	for len(frontier) > 0 && depth < 4 {
		depth++
		var next []node
		for _, nd := range frontier {
			for ti, tt := range tests {
				if time.Now().After(dl) {
					rep.And("exhaustive", false)
					rep.Set("closure:"+cfg.Name, map[string]any{"states": states, "transitions": transitions, "depth_reached": depth, "closed": false, "cut_by_deadline": true})
					return
				}
				seq := make([]*compliance.TestSpec, 0, len(nd.hist)+1)
				for _, h := range nd.hist {
					seq = append(seq, tests[h])
				}
				seq = append(seq, tt)
				vs, cs, x := execute(cfg, seq, nil)
				transitions++
				count(rep, len(seq), x.Steps, len(seq) > 1)
				names := seqNames(seq)
				if why := abnormal(x); why != "" {
					rep.Violate("C19/conformant-server-test-does-not-finish/"+tt.In.ShortName, fmt.Sprintf("[%s] after %v the test %q does not finish: %s", cfg, names[:len(names)-1], tt.In.ShortName, why), map[string]any{"config": cfg.Name, "sequence": names})
					continue
				}
				v := vs[len(vs)-1]
				if !v.pass {
					rep.Violate("C19/test-fails-on-conformant-server/"+tt.In.ShortName, fmt.Sprintf("[%s] run after %v, the test %q fails against the reference server: %s", cfg, names[:len(names)-1], tt.In.ShortName, v.why), map[string]any{"config": cfg.Name, "sequence": names})
					continue
				}
				c := cs[len(cs)-1]
				if !seen[c] {
					seen[c] = true
					states++
					next = append(next, node{append(append([]int{}, nd.hist...), ti)})
					rep.Set(fmt.Sprintf("closure-state:%s:%d", cfg.Name, states), map[string]any{"reached_by": names, "canonical": c})
				}
			}
		}
		frontier = next
		if len(frontier) == 0 {
			closed = true
		}
	}
	rep.And("exhaustive", closed)
	rep.Set("closure:"+cfg.Name, map[string]any{"states": states, "transitions": transitions, "depth_reached": depth, "closed": closed, "tests": len(tests)})
}

func seqNames(seq []*compliance.TestSpec) []string {
	var out []string
	for _, t := range seq {
		out = append(out, t.In.ShortName)
	}
	return out
}

// pairs: all ordered pairs whose first test is tests[i].
func pairs(rep *report.Report, cfg Config, i int, dl time.Time) {
	tests := eligible(cfg)
	if i >= len(tests) {
		return
	}
	for j := range tests {
		if time.Now().After(dl) {
			rep.And("exhaustive", false)
			return
		}
		seq := []*compliance.TestSpec{tests[i], tests[j]}
		vs, _, x := execute(cfg, seq, nil)
		count(rep, 2, x.Steps, true)
		names := seqNames(seq)
		if why := abnormal(x); why != "" {
			rep.Violate("C19/conformant-server-test-does-not-finish/"+tests[j].In.ShortName, fmt.Sprintf("[%s] the pair %v does not finish: %s", cfg, names, why), map[string]any{"config": cfg.Name, "sequence": names})
			continue
		}
		for k, v := range vs {
			if !v.pass {
				rep.Violate("C19/test-fails-on-conformant-server/"+seq[k].In.ShortName, fmt.Sprintf("[%s] in the order %v the test %q fails against the reference server: %s", cfg, names, seq[k].In.ShortName, v.why), map[string]any{"config": cfg.Name, "sequence": names})
			}
		}
	}
	rep.And("exhaustive", true)
}

// shuffle: every permutation of the operations of the random-order test.
func shuffle(rep *report.Report, cfg Config, dl time.Time) {
	var target *compliance.TestSpec
	for _, tt := range eligible(cfg) {
		if strings.Contains(tt.In.ShortName, "random order") {
			target = tt
		}
	}
	if target == nil {
		return
	}
	perms := 0
	res := mc.DFS(mc.SchedConfig{Name: "shuffle", NoStateCache: true, Bound: 0, SwitchCost: 1, Deadline: dl, MaxSteps: 5000000, Body: func() {
		w := newWorld(cfg)
		v := w.runTest(target)
		rt.Emit("verdict", v)
	}, Check: func(x *rt.Exec) []mc.Fail {
		perms++
		if why := abnormal(x); why != "" {
			return []mc.Fail{{Sig: "C19/conformant-server-test-does-not-finish/" + target.In.ShortName, What: why}}
		}
		for _, e := range x.Events {
			if v, ok := e.Val.(verdict); ok && !v.pass {
				var perm []int
				for _, c := range x.Choices {
					if c.Label == "shuffle" {
						perm = append(perm, c.Chosen)
					}
				}
				return []mc.Fail{{Sig: "C19/test-fails-on-conformant-server/" + target.In.ShortName, What: fmt.Sprintf("with shuffle choices %v: %s", perm, v.why)}}
			}
		}
		return nil
	}})
	rep.Add("evaluations", res.Execs)
	rep.Add("distinct_nontrivial", res.Execs)
	rep.Add("states", res.Execs)
	rep.Add("transitions", res.Execs)
	rep.Add("traces_validated_against_impl", res.Execs)
	rep.And("exhaustive", res.Exhaustive)
	rep.Set("shuffle-permutations", res.Execs)
	for _, f := range res.Fails {
		rep.Violate(f.Sig, f.What, map[string]any{"test": target.In.ShortName, "schedule": f.History})
	}
	if res.EngineError != "" {
		rep.EngineError("shuffle: %s", res.EngineError)
	}
}

var _ = sort.Strings
var _ = io.EOF
var _ = proto.Equal
var _ = context.Background
