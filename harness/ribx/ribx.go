// Package ribx holds what the RIB-level harnesses share: constructors for AFT operations, a boring reference
// model of a gRIBI RIB (a map), and canonical snapshots of the real rib.RIB.
package ribx

import (
	"encoding/hex"
	"fmt"
	"sort"
	"strconv"
	"strings"

	"github.com/openconfig/gribigo/aft"
	"github.com/openconfig/gribigo/rib"
	"google.golang.org/protobuf/encoding/prototext"
	"google.golang.org/protobuf/proto"

	aftpb "github.com/openconfig/gribi/v1/proto/gribi_aft"
	spb "github.com/openconfig/gribi/v1/proto/service"
	wpb "github.com/openconfig/ygot/proto/ywrapper"
)

// Kind is an AFT table.
type Kind int

const (
	NH Kind = iota
	NHG
	V4
	V6
	MPLS
	Unknown
)

func (k Kind) String() string { return [...]string{"nh", "nhg", "v4", "v6", "mpls", "?"}[k] }

// --- constructors -------------------------------------------------------------------------------------------

func U(v uint64) *wpb.UintValue   { return &wpb.UintValue{Value: v} }
func S(v string) *wpb.StringValue { return &wpb.StringValue{Value: v} }
func B(v []byte) *wpb.BytesValue  { return &wpb.BytesValue{Value: v} }
func Bool(v bool) *wpb.BoolValue  { return &wpb.BoolValue{Value: v} }

// NHEntry builds a next-hop with an IP address ("" = none).
func NHEntry(idx uint64, ip string) *aftpb.Afts_NextHopKey {
	n := &aftpb.Afts_NextHopKey{Index: idx, NextHop: &aftpb.Afts_NextHop{}}
	if ip != "" {
		n.NextHop.IpAddress = S(ip)
	}
	return n
}

// NHGEntry builds a next-hop-group; members are (index, weight) pairs, weight 0 = unset.
func NHGEntry(id uint64, backup uint64, members ...[2]uint64) *aftpb.Afts_NextHopGroupKey {
	g := &aftpb.Afts_NextHopGroupKey{Id: id, NextHopGroup: &aftpb.Afts_NextHopGroup{}}
	if backup != 0 {
		g.NextHopGroup.BackupNextHopGroup = U(backup)
	}
	for _, m := range members {
		k := &aftpb.Afts_NextHopGroup_NextHopKey{Index: m[0], NextHop: &aftpb.Afts_NextHopGroup_NextHop{}}
		if m[1] != 0 {
			k.NextHop.Weight = U(m[1])
		}
		g.NextHopGroup.NextHop = append(g.NextHopGroup.NextHop, k)
	}
	return g
}

func V4Entry(pfx string, nhg uint64, nhgNI string, meta []byte) *aftpb.Afts_Ipv4EntryKey {
	e := &aftpb.Afts_Ipv4EntryKey{Prefix: pfx, Ipv4Entry: &aftpb.Afts_Ipv4Entry{}}
	if nhg != 0 {
		e.Ipv4Entry.NextHopGroup = U(nhg)
	}
	if nhgNI != "" {
		e.Ipv4Entry.NextHopGroupNetworkInstance = S(nhgNI)
	}
	if meta != nil {
		e.Ipv4Entry.EntryMetadata = B(meta)
	}
	return e
}

func V6Entry(pfx string, nhg uint64, nhgNI string, meta []byte) *aftpb.Afts_Ipv6EntryKey {
	e := &aftpb.Afts_Ipv6EntryKey{Prefix: pfx, Ipv6Entry: &aftpb.Afts_Ipv6Entry{}}
	if nhg != 0 {
		e.Ipv6Entry.NextHopGroup = U(nhg)
	}
	if nhgNI != "" {
		e.Ipv6Entry.NextHopGroupNetworkInstance = S(nhgNI)
	}
	if meta != nil {
		e.Ipv6Entry.EntryMetadata = B(meta)
	}
	return e
}

func MPLSEntry(label uint64, nhg uint64, nhgNI string, meta []byte) *aftpb.Afts_LabelEntryKey {
	e := &aftpb.Afts_LabelEntryKey{Label: &aftpb.Afts_LabelEntryKey_LabelUint64{LabelUint64: label}, LabelEntry: &aftpb.Afts_LabelEntry{}}
	if nhg != 0 {
		e.LabelEntry.NextHopGroup = U(nhg)
	}
	if nhgNI != "" {
		e.LabelEntry.NextHopGroupNetworkInstance = S(nhgNI)
	}
	if meta != nil {
		e.LabelEntry.EntryMetadata = B(meta)
	}
	return e
}

// Op wraps an entry into an AFTOperation. entry is one of the *Key messages above.
func Op(id uint64, ni string, t spb.AFTOperation_Operation, entry proto.Message) *spb.AFTOperation {
	o := &spb.AFTOperation{Id: id, NetworkInstance: ni, Op: t}
	switch e := entry.(type) {
	case *aftpb.Afts_NextHopKey:
		o.Entry = &spb.AFTOperation_NextHop{NextHop: e}
	case *aftpb.Afts_NextHopGroupKey:
		o.Entry = &spb.AFTOperation_NextHopGroup{NextHopGroup: e}
	case *aftpb.Afts_Ipv4EntryKey:
		o.Entry = &spb.AFTOperation_Ipv4{Ipv4: e}
	case *aftpb.Afts_Ipv6EntryKey:
		o.Entry = &spb.AFTOperation_Ipv6{Ipv6: e}
	case *aftpb.Afts_LabelEntryKey:
		o.Entry = &spb.AFTOperation_Mpls{Mpls: e}
	default:
		panic(fmt.Sprintf("ribx.Op: unsupported entry %T", entry))
	}
	return o
}

// --- generic accessors --------------------------------------------------------------------------------------

// Ref is a reference from one entry to another.
type Ref struct {
	NI   string
	Kind Kind
	Key  string
}

// Describe returns kind, key and the *Key payload of an operation's entry.
func Describe(op *spb.AFTOperation) (Kind, string, proto.Message) {
	switch t := op.GetEntry().(type) {
	case *spb.AFTOperation_NextHop:
		return NH, strconv.FormatUint(t.NextHop.GetIndex(), 10), t.NextHop
	case *spb.AFTOperation_NextHopGroup:
		return NHG, strconv.FormatUint(t.NextHopGroup.GetId(), 10), t.NextHopGroup
	case *spb.AFTOperation_Ipv4:
		return V4, t.Ipv4.GetPrefix(), t.Ipv4
	case *spb.AFTOperation_Ipv6:
		return V6, t.Ipv6.GetPrefix(), t.Ipv6
	case *spb.AFTOperation_Mpls:
		return MPLS, strconv.FormatUint(t.Mpls.GetLabelUint64(), 10), t.Mpls
	}
	return Unknown, "", nil
}

// Refs returns what the entry with the given *Key payload, living in network instance ni, references
// (backup groups are not references for resolvability or deletion protection, per the property statements).
// Duplicate members yield duplicate Refs.
func Refs(ni string, payload proto.Message) []Ref {
	top := func(nhg uint64, nhgNI string) []Ref {
		if nhgNI == "" {
			nhgNI = ni
		}
		return []Ref{{NI: nhgNI, Kind: NHG, Key: strconv.FormatUint(nhg, 10)}}
	}
	switch e := payload.(type) {
	case *aftpb.Afts_NextHopGroupKey:
		var out []Ref
		for _, m := range e.GetNextHopGroup().GetNextHop() {
			out = append(out, Ref{NI: ni, Kind: NH, Key: strconv.FormatUint(m.GetIndex(), 10)})
		}
		return out
	case *aftpb.Afts_Ipv4EntryKey:
		return top(e.GetIpv4Entry().GetNextHopGroup().GetValue(), e.GetIpv4Entry().GetNextHopGroupNetworkInstance().GetValue())
	case *aftpb.Afts_Ipv6EntryKey:
		return top(e.GetIpv6Entry().GetNextHopGroup().GetValue(), e.GetIpv6Entry().GetNextHopGroupNetworkInstance().GetValue())
	case *aftpb.Afts_LabelEntryKey:
		return top(e.GetLabelEntry().GetNextHopGroup().GetValue(), e.GetLabelEntry().GetNextHopGroupNetworkInstance().GetValue())
	}
	return nil
}

// CanonPayload renders a *Key payload canonically: keyed lists sorted by key, deterministic wire bytes.
func CanonPayload(m proto.Message) string {
	c := proto.Clone(m)
	switch e := c.(type) {
	case *aftpb.Afts_NextHopGroupKey:
		l := e.GetNextHopGroup().GetNextHop()
		sort.SliceStable(l, func(i, j int) bool { return l[i].GetIndex() < l[j].GetIndex() })
		// a member listed twice with identical content is one member of the (keyed) list
		if g := e.GetNextHopGroup(); g != nil {
			var d []*aftpb.Afts_NextHopGroup_NextHopKey
			for i, x := range l {
				if i > 0 && proto.Equal(x, l[i-1]) {
					continue
				}
				d = append(d, x)
			}
			g.NextHop = d
		}
	case *aftpb.Afts_NextHopKey:
		l := e.GetNextHop().GetEncapHeader()
		sort.SliceStable(l, func(i, j int) bool { return l[i].GetIndex() < l[j].GetIndex() })
	}
	b, err := proto.MarshalOptions{Deterministic: true}.Marshal(c)
	if err != nil {
		return "marshal-error:" + err.Error()
	}
	return hex.EncodeToString(b)
}

// Text renders a message for humans.
func Text(m proto.Message) string {
	if m == nil {
		return "<nil>"
	}
	return strings.Join(strings.Fields(prototext.MarshalOptions{Multiline: false}.Format(m)), " ")
}

// --- reference model ----------------------------------------------------------------------------------------

// Entry is one installed entry of the model.
type Entry struct {
	NI      string
	Kind    Kind
	Key     string
	Payload proto.Message // the *Key message last programmed
}

func ek(ni string, k Kind, key string) string { return ni + "|" + k.String() + "|" + key }

// Model is the reference RIB: a map from (network instance, table, key) to the last programmed payload.
type Model struct {
	NIs map[string]bool
	E   map[string]*Entry
}

func NewModel(nis ...string) *Model {
	m := &Model{NIs: map[string]bool{}, E: map[string]*Entry{}}
	for _, n := range nis {
		m.NIs[n] = true
	}
	return m
}

func (m *Model) Has(ni string, k Kind, key string) bool   { _, ok := m.E[ek(ni, k, key)]; return ok }
func (m *Model) Get(ni string, k Kind, key string) *Entry { return m.E[ek(ni, k, key)] }
func (m *Model) Set(ni string, k Kind, key string, p proto.Message) {
	m.E[ek(ni, k, key)] = &Entry{NI: ni, Kind: k, Key: key, Payload: proto.Clone(p)}
}
func (m *Model) Del(ni string, k Kind, key string) { delete(m.E, ek(ni, k, key)) }

// Flush empties the named network instances.
func (m *Model) Flush(nis ...string) {
	for k, e := range m.E {
		for _, n := range nis {
			if e.NI == n {
				delete(m.E, k)
			}
		}
	}
}

// Apply folds one acknowledged operation. It reports false if the operation is a REPLACE of a key the model
// does not hold (which a correct server never acknowledges).
func (m *Model) Apply(op *spb.AFTOperation) bool {
	ni := op.GetNetworkInstance()
	k, key, p := Describe(op)
	switch op.GetOp() {
	case spb.AFTOperation_ADD:
		m.Set(ni, k, key, p)
	case spb.AFTOperation_REPLACE:
		if !m.Has(ni, k, key) {
			m.Set(ni, k, key, p)
			return false
		}
		m.Set(ni, k, key, p)
	case spb.AFTOperation_DELETE:
		m.Del(ni, k, key)
	}
	return true
}

// Resolvable reports whether everything the entry references is installed in the model.
func (m *Model) Resolvable(ni string, payload proto.Message) bool {
	for _, r := range Refs(ni, payload) {
		if !m.Has(r.NI, r.Kind, r.Key) {
			return false
		}
	}
	return true
}

// Referrers counts installed entries that reference (ni, kind, key): groups containing a next-hop (same NI),
// IPv4/IPv6/MPLS entries anywhere pointing at a group. A group listing a next-hop twice is one referrer.
func (m *Model) Referrers(ni string, k Kind, key string) int {
	n := 0
	for _, e := range m.E {
		for _, r := range Refs(e.NI, e.Payload) {
			if r.NI == ni && r.Kind == k && r.Key == key {
				n++
				break
			}
		}
	}
	return n
}

// Dangling lists installed entries with an unresolved reference.
func (m *Model) Dangling() []string {
	var out []string
	for k, e := range m.E {
		if !m.Resolvable(e.NI, e.Payload) {
			out = append(out, k)
		}
	}
	sort.Strings(out)
	return out
}

// Canon renders the model canonically.
func (m *Model) Canon() string {
	keys := make([]string, 0, len(m.E))
	for k := range m.E {
		keys = append(keys, k)
	}
	sort.Strings(keys)
	var sb strings.Builder
	for _, k := range keys {
		sb.WriteString(k)
		sb.WriteString("=")
		sb.WriteString(CanonPayload(m.E[k].Payload))
		sb.WriteString(";")
	}
	return sb.String()
}

// Clone copies the model.
func (m *Model) Clone() *Model {
	c := NewModel()
	for n := range m.NIs {
		c.NIs[n] = true
	}
	for k, e := range m.E {
		c.E[k] = &Entry{NI: e.NI, Kind: e.Kind, Key: e.Key, Payload: e.Payload}
	}
	return c
}

// --- snapshots of the real RIB ------------------------------------------------------------------------------

// Snapshot reads the real RIB through RIBContents and the ConcreteXXXProto converters and returns it in model
// form.
func Snapshot(r *rib.RIB) (*Model, error) {
	c, err := r.RIBContents()
	if err != nil {
		return nil, err
	}
	return FromContents(c)
}

// FromContents converts RIBContents output into model form.
func FromContents(c map[string]*aft.RIB) (*Model, error) {
	m := NewModel()
	for ni, rr := range c {
		m.NIs[ni] = true
		a := rr.GetAfts()
		if a == nil {
			continue
		}
		for _, e := range a.Ipv4Entry {
			p, err := rib.ConcreteIPv4Proto(e)
			if err != nil {
				return nil, err
			}
			m.Set(ni, V4, p.GetPrefix(), p)
		}
		for _, e := range a.Ipv6Entry {
			p, err := rib.ConcreteIPv6Proto(e)
			if err != nil {
				return nil, err
			}
			m.Set(ni, V6, p.GetPrefix(), p)
		}
		for _, e := range a.LabelEntry {
			p, err := rib.ConcreteMPLSProto(e)
			if err != nil {
				return nil, err
			}
			m.Set(ni, MPLS, strconv.FormatUint(p.GetLabelUint64(), 10), p)
		}
		for _, e := range a.NextHopGroup {
			p, err := rib.ConcreteNextHopGroupProto(e)
			if err != nil {
				return nil, err
			}
			m.Set(ni, NHG, strconv.FormatUint(p.GetId(), 10), p)
		}
		for _, e := range a.NextHop {
			p, err := rib.ConcreteNextHopProto(e)
			if err != nil {
				return nil, err
			}
			m.Set(ni, NH, strconv.FormatUint(p.GetIndex(), 10), p)
		}
	}
	return m, nil
}

// Diff describes the first few differences between two models ("" if equal).
func Diff(want, got *Model) string {
	var out []string
	for k, e := range want.E {
		g, ok := got.E[k]
		switch {
		case !ok:
			out = append(out, "missing "+k)
		case CanonPayload(e.Payload) != CanonPayload(g.Payload):
			out = append(out, fmt.Sprintf("payload of %s: want {%s} got {%s}", k, Text(e.Payload), Text(g.Payload)))
		}
	}
	for k := range got.E {
		if _, ok := want.E[k]; !ok {
			out = append(out, "unexpected "+k)
		}
	}
	sort.Strings(out)
	if len(out) > 4 {
		out = append(out[:4], fmt.Sprintf("(+%d more)", len(out)-4))
	}
	return strings.Join(out, "; ")
}

// DiffKinds is like Diff but returns only a stable classification (for signatures).
func DiffKinds(want, got *Model) string {
	set := map[string]bool{}
	for k, e := range want.E {
		g, ok := got.E[k]
		switch {
		case !ok:
			set["missing-"+e.Kind.String()] = true
		case CanonPayload(e.Payload) != CanonPayload(g.Payload):
			set["payload-"+e.Kind.String()] = true
		}
	}
	for k, g := range got.E {
		if _, ok := want.E[k]; !ok {
			set["unexpected-"+g.Kind.String()] = true
		}
	}
	var out []string
	for k := range set {
		out = append(out, k)
	}
	sort.Strings(out)
	return strings.Join(out, "+")
}

// PendingCanon renders the held operations canonically: sorted by id, ids replaced by their rank.
func PendingCanon(r *rib.RIB) string {
	var sb strings.Builder
	for i, p := range r.VerifPending() {
		k, key, pl := Describe(p.Op)
		fmt.Fprintf(&sb, "#%d:%s|%s|%s|%s|%s;", i, p.NI, p.Op.GetOp(), k, key, CanonPayload(pl))
	}
	return sb.String()
}

// RefCanon renders the reference counters canonically.
func RefCanon(r *rib.RIB) string {
	rc := r.VerifRefCounts()
	nis := make([]string, 0, len(rc))
	for n := range rc {
		nis = append(nis, n)
	}
	sort.Strings(nis)
	var sb strings.Builder
	for _, n := range nis {
		fmt.Fprintf(&sb, "%s{nh:%s nhg:%s}", n, mapCanon(rc[n].NextHop), mapCanon(rc[n].NextHopGroup))
	}
	return sb.String()
}

func mapCanon(m map[uint64]uint64) string {
	ks := make([]uint64, 0, len(m))
	for k := range m {
		ks = append(ks, k)
	}
	sort.Slice(ks, func(i, j int) bool { return ks[i] < ks[j] })
	var sb strings.Builder
	for _, k := range ks {
		fmt.Fprintf(&sb, "%d:%d,", k, m[k])
	}
	return sb.String()
}
