// Package reconc decides C15 by exhaustive enumeration over PAIRS of reference-closed RIBs: every (intended,
// target) pair from a generated catalogue is reconciled with the real reconciler, the operations are applied to
// the real target RIB in the documented order with reference checking on, and the result is compared with the
// intended contents in every network instance.
package reconc

import (
	"context"
	"fmt"
	aftpb "github.com/openconfig/gribi/v1/proto/gribi_aft"
	"github.com/openconfig/gribigo/server"
	"github.com/openconfig/ygot/ygot"
	"reflect"
	"sort"
	"strings"
	"sync"
	"sync/atomic"
	"time"
	"verif/harness/ribhist"
	"verif/wire"

	"github.com/openconfig/gribigo/rib"
	"github.com/openconfig/gribigo/rib/reconciler"
	"google.golang.org/protobuf/proto"

	"verif/harness/ribx"
	"verif/report"
	"verif/rt"

	spb "github.com/openconfig/gribi/v1/proto/service"
)

const (
	D = "DEFAULT"
	V = "VRF"
	T = "TONLY" // a network instance that only the target has
)

type ent struct {
	ni string
	e  proto.Message
}

// slot is one key of the universe with its payload variants (nil = absent).
type slot struct {
	name string
	alts []*ent
}

func m(i, w uint64) [2]uint64 { return [2]uint64{i, w} }

// richNH is a next-hop payload with several optional leaves set: between it and the plain payload a replace has to
// add leaves in one direction and REMOVE leaves in the other (a replace that merges shows only then).
func richNH(idx uint64, ip string) *aftpb.Afts_NextHopKey {
	n := ribx.NHEntry(idx, ip)
	n.NextHop.MacAddress = ribx.S("02:00:00:00:00:01")
	n.NextHop.InterfaceRef = &aftpb.Afts_NextHop_InterfaceRef{Interface: ribx.S("eth0"), Subinterface: ribx.U(3)}
	n.NextHop.PushedMplsLabelStack = []*aftpb.Afts_NextHop_PushedMplsLabelStackUnion{{PushedMplsLabelStackUint64: 100}, {PushedMplsLabelStackUint64: 200}}
	return n
}

func popNH(idx uint64, ip string, pop bool) *aftpb.Afts_NextHopKey {
	n := ribx.NHEntry(idx, ip)
	n.NextHop.PopTopLabel = ribx.Bool(pop)
	return n
}

func universe(thorough bool) []slot {
	u := []slot{
		{"nh1@D", []*ent{nil, {D, ribx.NHEntry(1, "1.1.1.1")}, {D, richNH(1, "9.9.9.9")}}},
		// (a boolean leaf set EXPLICITLY to false: "false" and "unset" are different payloads; thorough adds "true")
		{"nh2@D", []*ent{nil, {D, popNH(2, "2.2.2.2", false)}}},
		{"nhg1@D", []*ent{nil, {D, ribx.NHGEntry(1, 0, m(1, 1))}, {D, ribx.NHGEntry(1, 0, m(1, 1), m(2, 2))}}},
		{"v4p@D", []*ent{nil, {D, ribx.V4Entry("10.0.0.0/8", 1, "", nil)}, {D, ribx.V4Entry("10.0.0.0/8", 1, V, []byte{7})}}},
		{"mpls100@D", []*ent{nil, {D, ribx.MPLSEntry(100, 1, "", nil)}}},
		{"nh1@V", []*ent{nil, {V, ribx.NHEntry(1, "3.3.3.3")}}},
		{"nhg1@V", []*ent{nil, {V, ribx.NHGEntry(1, 0, m(1, 1))}}},
		{"v4p@V", []*ent{nil, {V, ribx.V4Entry("10.0.0.0/8", 1, D, nil)}}},
	}
	if !thorough {
		// quick: without the MPLS slot (the catalogue halves; the label table is covered in thorough)
		u = append(u[:4], u[5:]...)
	}
	if thorough {
		u[1].alts = append(u[1].alts, &ent{D, popNH(2, "2.2.2.2", true)})
		u[2].alts = append(u[2].alts, &ent{D, ribx.NHGEntry(1, 0, m(2, 1))})
		u[3].alts = append(u[3].alts, &ent{D, ribx.V4Entry("10.0.0.0/8", 2, "", []byte{1})})
		u = append(u,
			slot{"nhg2@D", []*ent{nil, {D, ribx.NHGEntry(2, 1, m(2, 1))}}},
			slot{"v6q@D", []*ent{nil, {D, ribx.V6Entry("2001:db8::/32", 1, "", nil)}, {D, ribx.V6Entry("2001:db8::/32", 2, "", nil)}}},
		)
	}
	return u
}

// kindsUniverse is a second, small universe in which every entry kind with its own copy of the diff code (IPv4,
// IPv6, MPLS) has a same-instance, a cross-instance and a metadata variant.
func kindsUniverse() []slot {
	return []slot{
		{"nh1@D", []*ent{nil, {D, ribx.NHEntry(1, "1.1.1.1")}}},
		{"nhg1@D", []*ent{nil, {D, ribx.NHGEntry(1, 0, m(1, 1))}}},
		{"nh1@V", []*ent{nil, {V, ribx.NHEntry(1, "3.3.3.3")}}},
		{"nhg1@V", []*ent{nil, {V, ribx.NHGEntry(1, 0, m(1, 1))}}},
		{"v6q@D", []*ent{nil, {D, ribx.V6Entry("2001:db8::/32", 1, "", nil)}, {D, ribx.V6Entry("2001:db8::/32", 1, V, nil)}, {D, ribx.V6Entry("2001:db8::/32", 1, "", []byte{7})}}},
		{"mpls100@D", []*ent{nil, {D, ribx.MPLSEntry(100, 1, "", nil)}, {D, ribx.MPLSEntry(100, 1, V, nil)}, {D, ribx.MPLSEntry(100, 1, "", []byte{7})}}},
		{"v6q@V", []*ent{nil, {V, ribx.V6Entry("2001:db8::/32", 1, D, nil)}}},
		{"mpls100@V", []*ent{nil, {V, ribx.MPLSEntry(100, 1, "", nil)}}},
	}
}

// state is a choice of one alternative per slot.
type state []int

func (s state) entries(u []slot) []*ent {
	var out []*ent
	for i, a := range s {
		if e := u[i].alts[a]; e != nil {
			out = append(out, e)
		}
	}
	return out
}

func (s state) String() string {
	return strings.Trim(strings.Join(strings.Fields(fmt.Sprint([]int(s))), ""), "[]")
}

// closed reports whether every reference of every entry resolves inside the state.
func closed(es []*ent) bool {
	mm := ribx.NewModel(D, V, T)
	for _, e := range es {
		op := ribx.Op(1, e.ni, spb.AFTOperation_ADD, e.e)
		k, key, p := ribx.Describe(op)
		mm.Set(e.ni, k, key, p)
	}
	return len(mm.Dangling()) == 0
}

func catalogue(u []slot) []state {
	var out []state
	cur := make(state, len(u))
	var rec func(i int)
	rec = func(i int) {
		if i == len(u) {
			if closed(cur.entries(u)) {
				out = append(out, append(state{}, cur...))
			}
			return
		}
		for a := range u[i].alts {
			cur[i] = a
			rec(i + 1)
		}
	}
	rec(0)
	return out
}

// build installs the entries in dependency order on a fresh RIB with reference checking on.
func build(es []*ent, nis ...string) (*rib.RIB, error) {
	r := rib.New(D)
	for _, n := range nis {
		if n != D {
			if err := r.AddNetworkInstance(n); err != nil {
				return nil, err
			}
		}
	}
	return r, fill(r, es)
}

// fill installs the entries (references first) into r.
func fill(r *rib.RIB, es []*ent) error {
	id := uint64(0)
	for _, want := range []ribx.Kind{ribx.NH, ribx.NHG, ribx.V4, ribx.V6, ribx.MPLS} {
		for _, e := range es {
			op := ribx.Op(0, e.ni, spb.AFTOperation_ADD, proto.Clone(e.e))
			if k, _, _ := ribx.Describe(op); k != want {
				continue
			}
			id++
			op.Id = id
			oks, fails, err := r.AddEntry(e.ni, op)
			if err != nil || len(fails) > 0 || len(oks) == 0 {
				return fmt.Errorf("cannot build catalogue RIB: %s not installed (%v %v)", ribx.Text(op), err, fails)
			}
		}
	}
	return nil
}

// tonly variants of the target-only network instance.
var tonly = []struct {
	name string
	es   []*ent
	has  bool
}{
	{"absent", nil, false},
	{"empty", nil, true},
	{"chain", []*ent{{T, ribx.NHEntry(1, "7.7.7.7")}, {T, ribx.NHGEntry(1, 0, m(1, 1))}, {T, ribx.V4Entry("10.0.0.0/8", 1, "", nil)}}, true},
}

type fail struct{ sig, what string }

// remoteTarget makes the cases run against reconciler.RemoteRIB: the target RIB lives in a real server and the
// reconciler learns its contents through the gRIBI Get RPC (in-memory transport) and rib.FromGetResponses.
var remoteTarget bool

func one(u []slot, in, tg state, tv int, base uint64) (string, []fail) {
	var out []fail
	bad := func(sig, format string, a ...any) { out = append(out, fail{sig, fmt.Sprintf(format, a...)}) }
	intended, err := build(in.entries(u), D, V)
	if err != nil {
		return "engine", []fail{{"engine/build", err.Error()}}
	}
	tnis := []string{D, V}
	if tonly[tv].has {
		tnis = append(tnis, T)
	}
	var target *rib.RIB
	var tt reconciler.RIBTarget
	if remoteTarget {
		srv, err := server.New(server.WithVRFs(tnis[1:]))
		if err != nil {
			return "engine", []fail{{"engine/server", err.Error()}}
		}
		target = srv.VerifRIB()
		if err := fill(target, append(tg.entries(u), tonly[tv].es...)); err != nil {
			return "engine", []fail{{"engine/build", err.Error()}}
		}
		rr, err := reconciler.NewRemoteRIBWithStub(D, wire.New(srv))
		if err != nil {
			return "engine", []fail{{"engine/remote", err.Error()}}
		}
		defer rr.CleanUp()
		tt = rr
	} else {
		var err error
		target, err = build(append(tg.entries(u), tonly[tv].es...), tnis...)
		if err != nil {
			return "engine", []fail{{"engine/build", err.Error()}}
		}
		tt = reconciler.NewLocalRIB(target)
	}
	id := &atomic.Uint64{}
	id.Store(base)
	rops, err := reconciler.New(reconciler.NewLocalRIB(intended), tt).Reconcile(context.Background(), id)
	if err != nil {
		bad("C15/reconcile-error", "Reconcile failed: %v", err)
		return "error", out
	}
	want, _ := ribx.Snapshot(intended)
	before, _ := ribx.Snapshot(target)
	name := fmt.Sprintf("intended=%s target=%s tonly=%s", in, tg, tonly[tv].name)
	var seq []*spb.AFTOperation
	for _, o := range []*reconciler.Ops{rops.Add, rops.Replace} {
		seq = append(seq, o.NH...)
		seq = append(seq, o.NHG...)
		seq = append(seq, o.TopLevel...)
	}
	seq = append(seq, rops.Delete.TopLevel...)
	seq = append(seq, rops.Delete.NHG...)
	seq = append(seq, rops.Delete.NH...)
	equal := want.Canon() == before.Canon()
	if rops.IsEmpty() != (len(seq) == 0) {
		bad("C15/is-empty-disagrees-with-operations", "%s: ReconcileOps.IsEmpty() = %v but %d operations were generated", name, rops.IsEmpty(), len(seq))
	}
	if cp := rops.DeepCopy(); cp != nil {
		n := 0
		for _, o := range []*reconciler.Ops{cp.Add, cp.Replace, cp.Delete} {
			n += len(o.NH) + len(o.NHG) + len(o.TopLevel)
		}
		if n != len(seq) {
			bad("C15/deep-copy-differs", "%s: DeepCopy() carries %d operations, the original %d", name, n, len(seq))
		}
	}
	if equal && len(seq) > 0 {
		bad("C15/operations-for-equal-ribs", "%s: the RIBs are equal but %d operations were generated (first: %s)", name, len(seq), ribx.Text(seq[0]))
	}
	ids := map[uint64]bool{}
	for _, op := range seq {
		if ids[op.GetId()] {
			bad("C15/duplicate-operation-id", "%s: operation id %d is used twice", name, op.GetId())
		}
		ids[op.GetId()] = true
		if op.GetId() <= base || op.GetId() > base+uint64(len(seq)) {
			bad("C15/operation-ids-do-not-count-up-from-base", "%s: operation id %d is outside (%d, %d]", name, op.GetId(), base, base+uint64(len(seq)))
		}
	}
	for i, op := range seq {
		var oks, fails []*rib.OpResult
		var err error
		if op.GetOp() == spb.AFTOperation_DELETE {
			oks, fails, err = target.DeleteEntry(op.GetNetworkInstance(), op)
		} else {
			oks, fails, err = target.AddEntry(op.GetNetworkInstance(), op)
		}
		acked := false
		for _, ok := range oks {
			if ok.ID == op.GetId() {
				acked = true
			}
		}
		if err != nil || len(fails) > 0 || !acked {
			k, _, _ := ribx.Describe(op)
			why := fmt.Sprint(err)
			if len(fails) > 0 {
				why = fails[0].Error
			}
			if err == nil && len(fails) == 0 {
				why = "held for an unresolved reference"
			}
			bad(fmt.Sprintf("C15/operation-does-not-succeed/%s-%s", op.GetOp(), k), "%s: operation %d of %d (%s) applied in the documented order did not succeed: %s", name, i+1, len(seq), ribx.Text(op), why)
			break
		}
	}
	got, _ := ribx.Snapshot(target)
	if d := ribx.Diff(want, got); d != "" {
		bad("C15/target-differs-from-intended/"+ribx.DiffKinds(want, got), "%s: after applying the %d operations the target differs from the intended RIB: %s", name, len(seq), d)
	} else if ci, err1 := intended.RIBContents(); err1 == nil {
		// The comparison above reads both RIBs through the repository's own struct-to-proto converters - the same
		// ones the reconciler uses to build its operations: a leaf they drop is dropped on both sides. Compare the
		// stored structures themselves as well.
		if ct, err2 := target.RIBContents(); err2 == nil {
			for ni, ri := range ci {
				if rt, ok := ct[ni]; ok && !reflect.DeepEqual(ri, rt) {
					d, _ := ygot.Diff(ri, rt)
					bad("C15/target-differs-from-intended/stored-structures", "%s: after applying the %d operations network instance %s of the target differs from the intended one in the stored structures (invisible through the proto converters): %v", name, len(seq), ni, d)
				}
			}
		}
	}
	oc := "converged"
	if equal {
		oc = "equal"
	}
	return fmt.Sprintf("%s/%d-ops", oc, len(seq)), out
}

// Run decides C15.
func Run(rep *report.Report, tier string) {
	outcomes := map[string]int{}
	tot := map[string]int{}
	// the small universe first: what it does not use of its share of the budget is left to the large one
	end := ribhist.Budget(tier, 150*time.Second, 25*time.Minute)
	rep.Set("exhaustive", true)
	runUniverse(rep, tier, "entry-kinds", kindsUniverse(), outcomes, tot, time.Now().Add(time.Until(end)/3))
	// the same pairs with the target behind the gRIBI API: reconciler.RemoteRIB reads it with a Get RPC (real server,
	// in-memory transport) and rebuilds it with rib.FromGetResponses before diffing
	remoteTarget = true
	runUniverse(rep, tier, "entry-kinds/remote-target", kindsUniverse(), outcomes, tot, time.Now().Add(time.Until(end)/2))
	remoteTarget = false
	runUniverse(rep, tier, "main", universe(tier == "thorough"), outcomes, tot, end)
	rep.Set("catalogue_states", tot["cat"])
	rep.Set("evaluations", tot["jobs"])
	rep.Set("distinct_nontrivial", tot["jobs"]-outcomes["equal/0-ops"])
	rep.Set("states", tot["cat"])
	rep.Set("transitions", tot["jobs"])
	rep.Set("traces_validated_against_impl", tot["jobs"])
	rep.Set("rule", "two universes (main; entry-kinds: IPv6 and MPLS with same-instance, cross-instance and metadata variants); catalogue = every reference-closed choice of one payload variant (or absence) per key of the universe; cases = ordered pairs of catalogue states x variants of a target-only network instance x map iteration orders (ascending, descending; thorough: the core cases also under their rotations by 1 and 2 = all orders of a 3-element map); trivial = equal pair without target-only entries")
	keys := make([]string, 0, len(outcomes))
	for k := range outcomes {
		keys = append(keys, k)
	}
	sort.Strings(keys)
	rep.Set("distinct_outcomes", len(keys))
	rep.Set("outcome_histogram", outcomes)
}

func runUniverse(rep *report.Report, tier, uname string, u []slot, outcomes map[string]int, tot map[string]int, deadline time.Time) {
	cat := catalogue(u)
	type job struct{ i, j, tv int }
	var all, core []job
	for i := range cat {
		for j := range cat {
			for tv := range tonly {
				// core: the diagonal, the empty intended / empty target rows and every pair without the
				// target-only instance; quick runs the core, thorough every (pair, target-only variant)
				isCore := tv == 0 || i == j || i == 0 || j == 0
				if isCore {
					core = append(core, job{i, j, tv})
				}
				if tier == "thorough" || isCore {
					all = append(all, job{i, j, tv})
				}
			}
		}
	}
	// passes: (map iteration order, jobs). The order in which operations of one category are emitted, and with it
	// the id each one gets, follows the order of the maps the reconciler (and the RIB) walk.
	type pass struct {
		order int
		jobs  []job
	}
	passes := []pass{{0, all}, {1, all}}
	if remoteTarget && tier != "thorough" {
		// (what the remote target adds is the Get / FromGetResponses round trip of the target's contents, which does
		// not depend on the map order of the diff: one order in the quick tier)
		passes = []pass{{0, all}}
	}
	if tier == "thorough" {
		for _, o := range rt.MapOrders(true)[2:] {
			passes = append(passes, pass{o, core})
		}
	}
	var mu sync.Mutex
	done, planned := 0, 0
	complete := true
	for _, ps := range passes {
		planned += len(ps.jobs)
		order := ps.order
		rt.MapOrder = order
		var wg sync.WaitGroup
		ch := make(chan job)
		for w := 0; w < 16; w++ {
			wg.Add(1)
			go func() {
				defer wg.Done()
				for jb := range ch {
					base := uint64(0)
					if (jb.i+jb.j)%2 == 1 {
						base = 1000
					}
					replay := map[string]any{"intended": describe(u, cat[jb.i]), "target": describe(u, cat[jb.j]), "universe": uname, "target_only_instance": tonly[jb.tv].name, "id_base": base, "map_order": rt.MapOrderName(order)}
					rep.Guard("reconcile "+uname, replay, func() {
						oc, fs := one(u, cat[jb.i], cat[jb.j], jb.tv, base)
						mu.Lock()
						outcomes[oc]++
						done++
						mu.Unlock()
						for _, f := range fs {
							rep.Violate(f.sig, f.what, replay)
						}
					})
				}
			}()
		}
		for n, jb := range ps.jobs {
			if n%256 == 0 && time.Now().After(deadline) {
				complete = false
				break
			}
			ch <- jb
		}
		close(ch)
		wg.Wait()
		if !complete {
			break
		}
	}
	rt.MapOrder = 0
	rep.And("exhaustive", complete)
	tot["cat"] += len(cat)
	tot["jobs"] += done
	rep.Set("universe:"+uname, map[string]any{"slots": len(u), "catalogue_states": len(cat), "cases_planned": planned, "cases_run": done, "complete": complete, "passes": len(passes)})
	rep.Sample(map[string]any{"intended": describe(u, cat[len(cat)/2]), "target": describe(u, cat[len(cat)/3]), "target_only_instance": "chain"})
	rep.Sample(map[string]any{"intended": describe(u, cat[len(cat)-1]), "target": describe(u, cat[0]), "target_only_instance": "absent"})
}

func describe(u []slot, s state) []string {
	var out []string
	for _, e := range s.entries(u) {
		out = append(out, e.ni+": "+ribx.Text(e.e))
	}
	return out
}
