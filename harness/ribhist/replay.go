package ribhist

import (
	"fmt"
	"strings"

	"verif/mc"
)

// Replay re-executes one recorded history of a RIB-tier search step by step on a fresh real RIB, evaluating the
// oracle of the property after every step, and prints what happens. label is the search label stored in the
// replay file, history the letter names.
func Replay(prop, label string, history []string) []mc.Fail {
	o := &Options{}
	switch prop {
	case "C01":
		o.Checks = Checks{Fold: true}
	case "C02":
		o.Checks = Checks{Resolve: true, Fold: true}
	case "C03":
		o.Checks = Checks{Referrers: true}
	case "C16":
		o.Checks = Checks{Hooks: true}
	case "C07":
		o.Checks = Checks{GetFold: true}
	}
	for _, part := range strings.Split(label, "/") {
		switch {
		case part == "forward-refs-false":
			o.NoFwdRefs = true
		case strings.HasPrefix(part, "hook-config-"):
			fmt.Sscanf(part, "hook-config-%d", (*int)(&o.Hook))
		case strings.HasPrefix(part, "from-"):
			name := strings.TrimPrefix(part, "from-")
			init, ok := ribInits[name]
			if prop == "C03" {
				init, ok = c03Inits[name]
			}
			if ok {
				o.Init = Alphabet(init...)
			}
		}
	}
	o.Letters = Alphabet(history...)
	in := New(o)().(*inst)
	var all []mc.Fail
	for i, l := range o.Letters {
		fs := in.Apply(i, true)
		fmt.Printf("step %d: %-32s answered=%v held=%d\n", i+1, l.Name, in.answered[in.step], len(in.r.VerifPending()))
		for _, f := range fs {
			fmt.Printf("    ORACLE %s: %s\n", f.Sig, f.What)
		}
		all = append(all, fs...)
	}
	return all
}
