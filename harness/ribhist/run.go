package ribhist

import (
	"fmt"
	"os"
	"runtime"
	"strconv"
	"sync"
	"time"

	"verif/mc"
	"verif/report"
	"verif/rt"
)

// Budget returns the time budget of a run: VERIF_BUDGET_S or the tier default.
func Budget(tier string, quick, thorough time.Duration) time.Time {
	if s := os.Getenv("VERIF_BUDGET_S"); s != "" {
		if n, err := strconv.Atoi(s); err == nil {
			return time.Now().Add(time.Duration(n) * time.Second)
		}
	}
	if tier == "thorough" {
		return time.Now().Add(thorough)
	}
	return time.Now().Add(time.Duration(float64(quick) * loadScale()))
}

// loadScale stretches the QUICK budgets on a machine that is busy with other work when the process starts: the
// budgets are wall-clock safety nets around searches with fixed targets (depth, deviation bound), sized for an idle
// 16-core machine; with the cores shared, the same targets need proportionally more wall-clock time. A check that
// reaches its targets does not use the extra time. 1 on an idle machine, at most 5.
var loadScale = sync.OnceValue(func() float64 {
	b, err := os.ReadFile("/proc/loadavg")
	if err != nil {
		return 1
	}
	var l1 float64
	if _, err := fmt.Sscan(string(b), &l1); err != nil {
		return 1
	}
	s := 1.5 * l1 / float64(runtime.NumCPU())
	switch {
	case s < 1:
		return 1
	case s > 5:
		return 5
	}
	return s
})

// Clock splits the budget of a check over its searches: each search may use an equal share of what is left (time a
// search does not use rolls over to the later ones).
type Clock struct {
	end  time.Time
	left int
}

// NewClock returns a clock for n searches.
func NewClock(tier string, quick, thorough time.Duration, n int) *Clock {
	return &Clock{end: Budget(tier, quick, thorough), left: n}
}

// Next returns the deadline of the next search.
func (c *Clock) Next() time.Time {
	if c.left < 1 {
		c.left = 1
	}
	d := time.Until(c.end) / time.Duration(c.left)
	c.left--
	// (a floor: the shares of the first searches of a long list are small although most searches need only a fraction
	// of theirs; the budget is a safety net, not a quota)
	if d < 12*time.Second {
		d = 12 * time.Second
	}
	return time.Now().Add(d)
}

// Search runs one BFS and merges its result into the report under the given label.
func Search(rep *report.Report, label string, o *Options, depth int, deadline time.Time) mc.Result {
	res := mc.BFS(mc.Config{Letters: Names(o.Letters), New: New(o), MaxDepth: depth, Deadline: deadline})
	Merge(rep, label, res, depth)
	return res
}

// SearchAll is Search without deduplication by canonical state (every history up to the depth is expanded).
func SearchAll(rep *report.Report, label string, o *Options, depth int, deadline time.Time) mc.Result {
	res := mc.BFS(mc.Config{Letters: Names(o.Letters), New: New(o), MaxDepth: depth, Deadline: deadline, NoDedup: true})
	Merge(rep, label, res, depth)
	return res
}

// Merge adds a BFS result to the report.
func Merge(rep *report.Report, label string, res mc.Result, depth int) {
	rep.Add("states", res.States)
	rep.Add("transitions", res.Transitions)
	rep.Add("traces_validated_against_impl", res.Transitions)
	rep.Add("real_calls", res.RealCalls)
	rep.Add("revisits", res.Revisits)
	rep.And("exhaustive", res.Exhaustive)
	rep.Set("search:"+label, map[string]any{
		"states": res.States, "transitions": res.Transitions, "depth_completed": res.DepthCompleted, "depth_target": depth,
		"closed": res.Closed, "states_per_depth": res.PerDepth, "exhaustive_to_target": res.Exhaustive,
		"differential_checks": res.ObsChecked, "violating_transitions_not_expanded": res.Pruned,
	})
	for _, s := range res.Samples {
		rep.Sample(map[string]any{"search": label, "history": s})
	}
	for _, f := range res.Fails {
		rep.Violate(f.Sig, f.What, map[string]any{"search": label, "history": f.History, "how": fmt.Sprintf("bin/check %s --replay <this file>", rep.Property)})
	}
}

var c01Letters = []string{
	"ADD nh1@D a", "ADD nh1@D b", "REPLACE nh1@D b", "DELETE nh1@D", "ADD nh2@D", "DELETE nh2@D", "ADD nh1@V", "DELETE nh1@V",
	"ADD nhg1@D {1}", "ADD nhg1@D {1,2}", "REPLACE nhg1@D {2}", "DELETE nhg1@D", "ADD nhg1@V {1}", "DELETE nhg1@V",
	"ADD v4 p@D ->1", "ADD v4 p@D ->1 meta", "ADD v4 p@D ->1@V", "REPLACE v4 p@D ->1 meta", "DELETE v4 p@D", "ADD v4 p@V ->1@D", "DELETE v4 p@V",
	"ADD v6 q@D ->1", "ADD v6 q@D ->1@V", "DELETE v6 q@D",
	"ADD mpls 100@D ->1", "REPLACE mpls 100@D ->1@V", "DELETE mpls 100@D", "DELETE mpls 2^32+100@D",
	"FLUSH D", "FLUSH V", "FLUSH all",
}

// RunC01 decides C01 at the RIB tier.
func RunC01(rep *report.Report, tier string) {
	depth := 4
	ck := NewClock(tier, 100*time.Second, 20*time.Minute, 13)
	if tier == "thorough" {
		depth = 6
	}
	letters := Alphabet(c01Letters...)
	rep.Set("alphabet", Names(letters))
	// cheapest searches first: what a search does not use of its share of the budget rolls over to the later ones
	fullSearches(rep, tier, ck, Checks{Fold: true}, 0)
	for _, name := range []string{"held-operations", "groups-installed", "entries-installed", "two-next-hops"} {
		o := &Options{Letters: letters, Checks: Checks{Fold: true}, Init: Alphabet(ribInits[name]...)}
		Search(rep, "rib/from-"+name, o, depth-1, ck.Next())
	}
	// every history of three letters from two start states WITHOUT deduplication: hidden state (a counter, a cache)
	// that the canonical form cannot contain is only visible to histories the deduplicating searches merge away
	for name, d := range map[string]int{"two-next-hops": 3, "groups-installed": 2} {
		if tier == "thorough" {
			d++
		}
		o := &Options{Letters: letters, Checks: Checks{Fold: true}, Init: Alphabet(ribInits[name]...)}
		SearchAll(rep, "rib/from-"+name+"/every-history-no-deduplication", o, d, ck.Next())
	}
	rt.MapOrder = 1 // descending iteration order of every map of the instrumented packages (held-operation walk)
	o := &Options{Letters: letters, Checks: Checks{Fold: true}, Init: Alphabet(ribInits["held-operations"]...)}
	Search(rep, "rib/from-held-operations/descending-map-order", o, depth-1, ck.Next())
	rt.MapOrder = 0
	for _, nofwd := range []bool{true, false} {
		o := &Options{Letters: letters, NoFwdRefs: nofwd, Checks: Checks{Fold: true}}
		Search(rep, fmt.Sprintf("rib/forward-refs-%v", !nofwd), o, depth, ck.Next())
	}
	// the RIB without its consistency checks (rib.DisableRIBCheckFn, as FromGetResponses builds it): nothing is
	// held or refused for its references, the contents are still the fold of what was acknowledged
	o = &Options{Letters: letters, NoCheckFn: true, Checks: Checks{Fold: true}}
	Search(rep, "rib/check-functions-disabled", o, depth-1, ck.Next())
}

// fullInits are the start states of the searches over the generated, symmetric alphabet (short histories from rich
// states: every kind of entry in both instances, same-instance and cross-instance references both ways).
var fullInits = map[string][]string{
	"all-kinds-both-instances": {"ADD nh1@D a", "ADD nh2@D", "ADD nh1@V", "ADD nh2@V", "ADD nhg1@D {1}", "ADD nhg2@D {2}", "ADD nhg1@V {1}", "ADD nhg2@V {2}",
		"ADD v4 p@D ->1", "ADD v6 q@D ->1@V", "ADD mpls 100@D ->2", "ADD v4 p@V ->1@D", "ADD v6 q@V ->1", "ADD mpls 100@V ->1"},
	"groups-in-both-instances": {"ADD nh1@D a", "ADD nh2@D", "ADD nh1@V", "ADD nh2@V", "ADD nhg1@D {1}", "ADD nhg2@D {2}", "ADD nhg1@V {1}", "ADD nhg2@V {2}"},
	"held-in-both-instances":   {"ADD nh1@D a", "ADD nhg2@D {2}", "ADD v4 p@D ->2", "ADD v6 q@V ->1@D", "ADD mpls 100@V ->1", "ADD nhg1@V {1,2}"},
}

// fullSearches runs the symmetric alphabet from the rich start states (depth 2, thorough 3).
func fullSearches(rep *report.Report, tier string, ck *Clock, checks Checks, hook HookConfig) {
	d := 2
	if tier == "thorough" {
		d = 3
	}
	full := Alphabet(FullAlphabet()...)
	for _, name := range []string{"all-kinds-both-instances", "groups-in-both-instances", "held-in-both-instances"} {
		o := &Options{Letters: full, Checks: checks, Hook: hook, Init: Alphabet(fullInits[name]...)}
		Search(rep, "rib/symmetric-alphabet/from-"+name, o, d, ck.Next())
	}
}

// ribInits are non-initial start states shared by the RIB-tier searches.
var ribInits = map[string][]string{
	"held-operations":  {"ADD v4 p@D ->1", "ADD v4 p@D ->1 meta", "ADD v6 q@D ->1", "ADD nhg1@D {1,2}", "ADD v4 p@V ->1@D"},
	"groups-installed": {"ADD nh1@D a", "ADD nh2@D", "ADD nh1@V", "ADD nhg1@D {1,2}", "ADD nhg1@V {1}"},
	// two entries of one table and nothing else (short histories that delete absent keys, then present ones, then flush)
	"two-next-hops": {"ADD nh1@D a", "ADD nh2@D"},
	// asymmetric on purpose: the second network instance exists but is EMPTY
	"groups-in-default-only": {"ADD nh1@D a", "ADD nh2@D", "ADD nhg1@D {1,2}"},
	"entries-installed":      {"ADD nh1@D a", "ADD nh2@D", "ADD nh1@V", "ADD nhg1@D {1,2}", "ADD nhg1@V {1}", "ADD v4 p@D ->1 meta", "ADD v4 p@V ->1@D", "ADD v6 q@D ->1", "ADD mpls 100@D ->1"},
}

var c02Letters = []string{
	"ADD nh1@D a", "DELETE nh1@D", "ADD nh2@D", "DELETE nh2@D", "ADD nh1@V",
	"ADD nhg1@D {1}", "ADD nhg1@D {1,2}", "REPLACE nhg1@D {2}", "DELETE nhg1@D", "ADD nhg2@D {2}", "ADD nhg2@D {2} backup 1", "DELETE nhg2@D", "ADD nhg1@V {1}",
	"ADD v4 p@D ->1", "ADD v4 p@D ->1@V", "REPLACE v4 p@D ->2", "DELETE v4 p@D",
	"ADD v6 q@D ->1", "ADD v6 q@D ->1@V", "DELETE v6 q@D", "ADD mpls 100@D ->1", "ADD mpls 100@D ->1@V", "DELETE mpls 100@D", "FLUSH all",
	"ADD nhg3@D {0}", "ADD nhg3@D {}", "ADD v4 s@D ->0", "ADD v4 s@D ->1@NOPE",
}

var c02Graphs = map[string][]string{
	"G1": {"ADD nh1@D a", "ADD nhg1@D {1}", "ADD v4 p@D ->1"},
	"G2": {"ADD nh1@D a", "ADD nh2@D", "ADD nhg1@D {1,2}", "ADD v4 p@D ->1", "ADD v6 q@D ->1", "ADD mpls 100@D ->1"},
	"G3": {"ADD nh1@V", "ADD nhg1@V {1}", "ADD v4 p@D ->1@V", "ADD nh1@D a", "ADD nhg1@D {1}", "ADD mpls 100@D ->1"},
	"G4": {"ADD nh1@D a", "ADD nh2@D", "ADD nhg1@D {1,2}", "ADD v4 p@D ->1", "ADD v4 r@D ->1", "ADD nhg2@D {3}", "ADD v6 q@D ->2"},
	"G5": {"ADD nh1@D a", "ADD nhg1@D {1}", "ADD v4 p@D ->1", "REPLACE v4 p@D ->2", "ADD nhg2@D {2}", "ADD nh2@D", "DELETE v4 p@D"},
	"G6": {"ADD nh1@V", "ADD nhg1@V {1}", "ADD v6 q@D ->1@V", "ADD mpls 100@D ->1@V", "ADD nh1@D a", "ADD nhg1@D {1}", "ADD v4 p@D ->1"},
}

// RunC02 decides C02 at the RIB tier.
func RunC02(rep *report.Report, tier string) {
	depth, maxGraph := 4, 7
	ck := NewClock(tier, 100*time.Second, 20*time.Minute, 23)
	if tier == "thorough" {
		depth, maxGraph = 6, 7
	}
	letters := Alphabet(c02Letters...)
	rep.Set("alphabet", Names(letters))
	for _, g := range []string{"G1", "G2", "G3", "G4", "G5", "G6"} {
		ls := c02Graphs[g]
		if len(ls) > maxGraph {
			continue
		}
		for _, nofwd := range []bool{false, true} {
			o := &Options{Letters: Alphabet(ls...), NoFwdRefs: nofwd, Checks: Checks{Resolve: true, Fold: true}}
			res := mc.BFS(mc.Config{Letters: ls, New: New(o), MaxDepth: len(ls), Deadline: ck.Next(), Enabled: func(h []int, l int) bool {
				for _, x := range h {
					if x == l {
						return false
					}
				}
				return true
			}})
			Merge(rep, fmt.Sprintf("arrival-orders/%s/forward-refs-%v", g, !nofwd), res, len(ls))
		}
	}
	// the same arrival orders with the held-operation walk (and every other map iteration of the instrumented
	// packages) in DESCENDING key order: the oracle accepts any walk order, the implementation must too
	rt.MapOrder = 1
	for _, g := range []string{"G2", "G4", "G5"} {
		ls := c02Graphs[g]
		o := &Options{Letters: Alphabet(ls...), Checks: Checks{Resolve: true, Fold: true}}
		res := mc.BFS(mc.Config{Letters: ls, New: New(o), MaxDepth: len(ls), Deadline: ck.Next(), Enabled: func(h []int, l int) bool {
			for _, x := range h {
				if x == l {
					return false
				}
			}
			return true
		}})
		Merge(rep, fmt.Sprintf("arrival-orders/%s/forward-refs-true/descending-map-order", g), res, len(ls))
	}
	rt.MapOrder = 0
	fullSearches(rep, tier, ck, Checks{Resolve: true, Fold: true}, 0)
	// from non-initial states: a DELETE that must be refused needs an installed chain first
	for _, name := range []string{"groups-installed", "cross-instance"} {
		o := &Options{Letters: letters, Checks: Checks{Resolve: true, Fold: true}, Init: Alphabet(c03Inits[name]...)}
		Search(rep, "mixed/from-"+name, o, depth, ck.Next())
	}
	for _, nofwd := range []bool{true, false} {
		o := &Options{Letters: letters, NoFwdRefs: nofwd, Checks: Checks{Resolve: true, Fold: true}}
		Search(rep, fmt.Sprintf("mixed/forward-refs-%v", !nofwd), o, depth, ck.Next())
	}
}

var c03Letters = []string{
	"ADD v4 p@D ->1", "ADD v4 p@D ->2", "ADD v4 p@D ->1@V", "REPLACE v4 p@D ->2", "DELETE v4 p@D",
	"ADD v4 p@V ->1@D", "ADD v4 p@V ->1", "DELETE v4 p@V",
	"ADD v6 q@D ->1", "ADD v6 q@D ->2", "ADD v6 q@D ->1@V", "DELETE v6 q@D",
	"ADD v6 Q@D ->1", "ADD v6 Q@D ->2", "DELETE v6 Q@D",
	"ADD mpls 100@D ->1", "ADD mpls 100@D ->2", "ADD mpls 100@D ->1@V", "DELETE mpls 100@D",
	"ADD nhg1@D {1}", "ADD nhg1@D {2}", "ADD nhg1@D {1,2}", "REPLACE nhg1@D {2}", "DELETE nhg1@D",
	"ADD nhg2@D {1}", "ADD nhg2@D {2}", "ADD nhg2@D {2} backup 1", "DELETE nhg2@D", "ADD nhg1@V {1}", "DELETE nhg1@V",
	"ADD nh1@D a", "DELETE nh1@D", "ADD nh2@D", "DELETE nh2@D", "ADD nh1@V", "DELETE nh1@V",
	"FLUSH D", "FLUSH V", "FLUSH all",
}

// RunC03 decides C03 at the RIB tier.
func RunC03(rep *report.Report, tier string) {
	depth := 4
	ck := NewClock(tier, 100*time.Second, 20*time.Minute, 8+len(c03Inits))
	names := append([]string{}, c03Letters...)
	if tier == "thorough" {
		depth = 6
	}
	names = append(names, "ADD nhg1@D {1,1}")
	letters := Alphabet(names...)
	rep.Set("alphabet", Names(letters))
	fullSearches(rep, tier, ck, Checks{Referrers: true}, 0)
	// from non-initial states: all next-hops and groups installed / additionally every top-level entry installed
	for _, name := range []string{"groups-installed", "entries-installed", "cross-instance"} {
		init := c03Inits[name]
		o := &Options{Letters: letters, Checks: Checks{Referrers: true}, Init: Alphabet(init...)}
		Search(rep, "rib/from-"+name, o, depth-1, ck.Next())
	}
	{
		o := &Options{Letters: letters, Checks: Checks{Referrers: true}, Init: Alphabet(c03Inits["groups-installed"]...)}
		SearchAll(rep, "rib/from-groups-installed/every-history-no-deduplication", o, 2, ck.Next())
	}
	rt.MapOrder = 1 // descending iteration order of every map of the instrumented packages
	for _, name := range []string{"groups-installed", "cross-instance"} {
		o := &Options{Letters: letters, Checks: Checks{Referrers: true}, Init: Alphabet(c03Inits[name]...)}
		Search(rep, "rib/from-"+name+"/descending-map-order", o, depth-1, ck.Next())
	}
	rt.MapOrder = 0
	for _, nofwd := range []bool{true, false} {
		o := &Options{Letters: letters, NoFwdRefs: nofwd, Checks: Checks{Referrers: true}}
		d := depth
		if tier != "thorough" && !nofwd {
			d = depth - 1 // the searches from non-initial states above go deeper where it matters
		}
		Search(rep, fmt.Sprintf("rib/forward-refs-%v", !nofwd), o, d, ck.Next())
	}
}

var c03Inits = map[string][]string{
	"groups-installed":  {"ADD nh1@D a", "ADD nh2@D", "ADD nh1@V", "ADD nhg1@D {1}", "ADD nhg2@D {2}", "ADD nhg1@V {1}"},
	"entries-installed": {"ADD nh1@D a", "ADD nh2@D", "ADD nh1@V", "ADD nhg1@D {1}", "ADD nhg2@D {2}", "ADD nhg1@V {1}", "ADD v4 p@D ->1", "ADD v4 p@V ->1", "ADD v6 q@D ->2", "ADD mpls 100@D ->1"},
	"cross-instance":    {"ADD nh1@D a", "ADD nh1@V", "ADD nhg1@D {1}", "ADD nhg1@V {1}", "ADD v4 p@D ->1@V", "ADD v4 p@V ->1@D"},
}

var c16Letters = []string{
	"ADD nh1@D a", "ADD nh1@D b", "DELETE nh1@D", "ADD nh1@V", "DELETE nh1@V",
	"ADD nhg1@D {1}", "ADD nhg1@D {1,2}", "ADD nh2@D", "DELETE nhg1@D", "ADD nhg1@V {1}", "DELETE nhg1@V",
	"ADD v4 p@D ->1", "ADD v4 p@D ->1@V", "REPLACE v4 p@D ->1 meta", "DELETE v4 p@D", "ADD v4 p@V ->1", "DELETE v4 p@V",
	"ADD v6 q@D ->1", "ADD v6 q@D ->1@V", "DELETE v6 q@D", "ADD mpls 100@D ->1", "DELETE mpls 100@D",
	"FLUSH D", "FLUSH V", "FLUSH all",
}

// RunC16 decides the post-change-hook half of C16 at the RIB tier.
func RunC16(rep *report.Report, tier string) {
	depth := 4
	ck := NewClock(tier, 100*time.Second, 20*time.Minute, 23)
	if tier == "thorough" {
		depth = 7 // (budget-bounded: the search reports the depth it completed)
	}
	letters := Alphabet(c16Letters...)
	rep.Set("alphabet", Names(letters))
	fullSearches(rep, tier, ck, Checks{Hooks: true}, HookAfterNIs)
	for _, hc := range []HookConfig{HookAfterNIs, HookBeforeNIs} {
		for _, name := range []string{"held-operations", "entries-installed"} {
			o := &Options{Letters: letters, Checks: Checks{Hooks: true}, Hook: hc, Init: Alphabet(ribInits[name]...)}
			Search(rep, fmt.Sprintf("rib/hook-config-%d/from-%s", hc, name), o, depth-1, ck.Next())
		}
	}
	// the hook given to server.New as an option, the second instance through WithVRFs, options in both orders
	for _, hc := range []HookConfig{HookServerOptVRFsFirst, HookServerOptHookFirst} {
		o := &Options{Letters: letters, Checks: Checks{Hooks: true}, Hook: hc}
		Search(rep, fmt.Sprintf("server-options/hook-config-%d", hc), o, depth-2, ck.Next())
	}
	rt.MapOrder = 1 // descending iteration order of every map (Flush and the held-operation walk emit hooks in map order)
	for _, name := range []string{"held-operations", "entries-installed"} {
		o := &Options{Letters: letters, Checks: Checks{Hooks: true}, Hook: HookAfterNIs, Init: Alphabet(ribInits[name]...)}
		Search(rep, fmt.Sprintf("rib/hook-config-%d/from-%s/descending-map-order", HookAfterNIs, name), o, depth-1, ck.Next())
	}
	rt.MapOrder = 0
	// resolved-entry hook (runs in its own goroutine): whole histories under the controlled runtime
	rl := Alphabet("ADD nh1@D a", "ADD nhg1@D {1}", "ADD nh1@V", "ADD nhg1@V {1}", "ADD v4 p@D ->1", "ADD v4 p@D ->1 meta", "ADD v4 p@D ->1@V", "DELETE v4 p@D", "ADD v4 p@V ->1",
		"ADD v6 q@D ->1", "DELETE v6 q@D", "ADD mpls 100@D ->1", "DELETE mpls 100@D", "DELETE nhg1@D", "FLUSH D", "FLUSH all")
	for _, name := range []string{"held-operations", "entries-installed", "groups-in-default-only", ""} {
		d := depth - 2
		if name == "" {
			d = depth - 1
		}
		o := &Options{Letters: rl}
		label := "resolved-entry-hook/from-empty"
		if name != "" {
			o.Init = Alphabet(ribInits[name]...)
			label = "resolved-entry-hook/from-" + name
		}
		res := mc.BFS(mc.Config{Letters: Names(rl), New: NewResolved(o), MaxDepth: d, Deadline: ck.Next(), Workers: 1})
		Merge(rep, label, res, d)
	}
	// the second network instance is created AFTER entries were installed in the default one and the contents were read
	late := []string{"ADD nh1@D a", "ADD nhg1@D {1}", "ADD v4 p@D ->1"}
	{
		o := &Options{Letters: rl, LateVRF: true, Init: Alphabet(late...)}
		res := mc.BFS(mc.Config{Letters: Names(rl), New: NewResolved(o), MaxDepth: depth - 1, Deadline: ck.Next(), Workers: 1})
		Merge(rep, "resolved-entry-hook/network-instance-created-late", res, depth-1)
		o2 := &Options{Letters: letters, Checks: Checks{Hooks: true}, Hook: HookAfterNIs, LateVRF: true, Init: Alphabet(late...)}
		Search(rep, "rib/hook-config-1/network-instance-created-late", o2, depth-1, ck.Next())
	}
	{
		// the POST-CHANGE hook inside one controlled execution with a lagging consumer: notifications that a change
		// hands to goroutines (instead of delivering them before it returns) only run at the end, after the
		// notifications of later changes
		o := &Options{Letters: rl, Lag: true, Hook: HookAfterNIs, Init: Alphabet(ribInits["entries-installed"]...)}
		res := mc.BFS(mc.Config{Letters: Names(rl), New: NewResolved(o), MaxDepth: depth - 2, Deadline: ck.Next(), Workers: 1})
		Merge(rep, "post-change-hook/lagging-consumer/from-entries-installed", res, depth-2)
	}
	for _, name := range []string{"entries-installed", "groups-in-default-only", ""} {
		o := &Options{Letters: rl, Lag: true}
		label, d := "resolved-entry-hook/lagging-consumer/from-empty", depth-1
		if name != "" {
			o.Init = Alphabet(ribInits[name]...)
			label, d = "resolved-entry-hook/lagging-consumer/from-"+name, depth-2
		}
		res := mc.BFS(mc.Config{Letters: Names(rl), New: NewResolved(o), MaxDepth: d, Deadline: ck.Next(), Workers: 1})
		Merge(rep, label, res, d)
	}
	// the two largest searches last
	for _, hc := range []HookConfig{HookAfterNIs, HookBeforeNIs} {
		o := &Options{Letters: letters, Checks: Checks{Hooks: true}, Hook: hc}
		Search(rep, fmt.Sprintf("rib/hook-config-%d", hc), o, depth, ck.Next())
	}
}

var c07Letters = []string{
	"ADD nh1@D a", "ADD nh1@D b", "DELETE nh1@D", "ADD nh1@V",
	"ADD nhg1@D {1}", "ADD nhg1@D {1,2}", "ADD nh2@D", "DELETE nhg1@D", "ADD nhg1@V {1}",
	"ADD v4 p@D ->1", "ADD v4 p@D ->1 meta", "ADD v4 p@D ->1@V", "DELETE v4 p@D", "ADD v4 p@V ->1",
	"ADD v6 q@D ->1", "ADD v6 q@D ->1@V", "DELETE v6 q@D", "ADD mpls 100@D ->1", "REPLACE mpls 100@D ->1@V", "DELETE mpls 100@D",
	"ADD v4 P@D ->1", "DELETE v4 P@D", "ADD v6 H@D ->1", "DELETE v6 H@D",
	"FLUSH D", "FLUSH V", "FLUSH all",
}

// RunC07Hist is the history tier of C07: the Get stream after every step of every history.
func RunC07Hist(rep *report.Report, tier string) {
	depth := 3
	ck := NewClock(tier, 100*time.Second, 20*time.Minute, 7)
	if tier == "thorough" {
		depth = 5
	}
	letters := Alphabet(c07Letters...)
	rep.Set("history_alphabet", Names(letters))
	fullSearches(rep, tier, ck, Checks{GetFold: true}, 0)
	for _, name := range []string{"entries-installed", "held-operations"} {
		o := &Options{Letters: letters, Checks: Checks{GetFold: true}, Init: Alphabet(ribInits[name]...)}
		Search(rep, "get-after-every-step/from-"+name, o, depth, ck.Next())
	}
	o := &Options{Letters: letters, Checks: Checks{GetFold: true}}
	Search(rep, "get-after-every-step/from-empty", o, depth, ck.Next())
	// the second network instance is created after entries were installed in the default one and a Get had run
	o = &Options{Letters: letters, Checks: Checks{GetFold: true}, LateVRF: true, Init: Alphabet("ADD nh1@D a", "ADD nhg1@D {1}", "ADD v4 p@D ->1")}
	Search(rep, "get-after-every-step/network-instance-created-late", o, depth, ck.Next())
}
