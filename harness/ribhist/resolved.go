package ribhist

import (
	"fmt"

	"github.com/openconfig/gribigo/aft"
	"github.com/openconfig/gribigo/constants"
	"github.com/openconfig/gribigo/rib"

	"verif/harness/ribx"
	"verif/mc"
	"verif/rt"
)

// resolved-entry hook tier of C16: the hook runs in a goroutine of its own, so whole histories are executed under
// the controlled runtime (default schedule, quiescence after every step). Every notification must carry a
// private snapshot that contains the announced entry for an ADD, lacks it for a DELETE, and is unaffected by
// later changes; every acknowledged top-level ADD / effective DELETE must be announced exactly once.

type notif struct {
	op    constants.OpType
	ni    string
	table constants.AFT
	key   string
	ribs  map[string]*aft.RIB
	clone string // canonical form of the snapshot when it was received
	step  int
}

type rinst struct {
	o     *Options
	hist  []int
	canon string
}

// NewResolved returns the constructor for the resolved-entry-hook tier (mc.Config.Workers must be 1).
func NewResolved(o *Options) func() mc.Instance {
	return func() mc.Instance { return &rinst{o: o} }
}

func (r *rinst) Apply(l int, check bool) []mc.Fail {
	r.hist = append(r.hist, l)
	if !check {
		return nil
	}
	var fails []mc.Fail
	r.canon, fails = executeResolved(r.o, r.hist)
	return fails
}

func (r *rinst) Canon() string {
	if r.canon == "" {
		r.canon, _ = executeResolved(r.o, r.hist)
	}
	return r.canon
}
func (r *rinst) Obs() string { return "" }

func snapCanon(ribs map[string]*aft.RIB) string {
	m, err := ribx.FromContents(ribs)
	if err != nil {
		return "ERR " + err.Error()
	}
	return m.Canon()
}

func executeResolved(o *Options, hist []int) (string, []mc.Fail) {
	var fails []mc.Fail
	var canon string
	bad := func(sig, format string, a ...any) {
		fails = append(fails, mc.Fail{Sig: sig, What: fmt.Sprintf(format, a...)})
	}
	x := rt.Run(rt.Options{}, func() {
		in := New(o)().(*inst)
		var got []*notif
		step := 0
		in.r.SetResolvedEntryHook(func(ribs map[string]*aft.RIB, ot constants.OpType, ni string, table constants.AFT, key any, _ ...rib.ResolvedDetails) {
			got = append(got, &notif{op: ot, ni: ni, table: table, key: fmt.Sprint(key), ribs: ribs, clone: snapCanon(ribs), step: step})
		})
		for i, li := range hist {
			step = i + 1
			l := o.Letters[li]
			before := in.fold.Clone()
			n0 := len(got)
			in.apply(l, false)
			if o.Lag {
				// lagging consumer: the hook goroutines do not get to run before the whole history has been
				// applied; what a notification carries must have been fixed when the change was made
				if i == len(hist)-1 {
					rt.Quiesce()
				}
				continue
			}
			rt.Quiesce()
			if i != len(hist)-1 {
				continue
			}
			// expected announcements of this step: one per acknowledged top-level ADD / REPLACE (also of held
			// operations resolved by this step) and one per acknowledged DELETE of a top-level entry that was
			// installed (Flush announces nothing through this hook)
			if l.Entry != nil {
				want := map[string]int{}
				cur := before.Clone()
				for _, ok := range in.lastOks {
					k, key, _ := ribx.Describe(ok.Op)
					if k == ribx.NH || k == ribx.NHG {
						cur.Apply(ok.Op)
						continue
					}
					ni := ok.Op.GetNetworkInstance()
					if ok.Op.GetOp().String() == "DELETE" {
						if cur.Has(ni, k, key) {
							want[fmt.Sprintf("Delete|%s|%s|%s", ni, k, key)]++
						}
					} else {
						want[fmt.Sprintf("Add|%s|%s|%s", ni, k, key)]++
					}
					cur.Apply(ok.Op)
				}
				have := map[string]int{}
				for _, n := range got[n0:] {
					kind := map[constants.AFT]ribx.Kind{constants.IPv4: ribx.V4, constants.IPv6: ribx.V6, constants.MPLS: ribx.MPLS}[n.table]
					opn := "Add"
					if n.op == constants.Delete {
						opn = "Delete"
					}
					have[fmt.Sprintf("%s|%s|%s|%s", opn, n.ni, kind, n.key)]++
				}
				for w, c := range want {
					if have[w] < c {
						bad("C16/resolved-entry-change-not-announced", "after %s: %s acknowledged %d times but announced %d times through the resolved-entry hook (announced: %v)", l.Name, w, c, have[w], have)
					}
				}
				for h, c := range have {
					if c > want[h] {
						bad("C16/resolved-entry-announced-without-change", "after %s: %s announced %d times, %d acknowledged changes", l.Name, h, c, want[h])
					}
				}
			}
		}
		// per-notification oracle
		for _, n := range got {
			r, ok := n.ribs[n.ni]
			if !ok {
				bad("C16/resolved-snapshot-lacks-network-instance", "notification %s %s %s@%s: the snapshot has no network instance %s", n.op, n.table, n.key, n.ni, n.ni)
				continue
			}
			present := false
			switch n.table {
			case constants.IPv4:
				_, present = r.GetAfts().Ipv4Entry[n.key]
			case constants.IPv6:
				_, present = r.GetAfts().Ipv6Entry[n.key]
			case constants.MPLS:
				for k := range r.GetAfts().LabelEntry {
					if fmt.Sprint(k) == n.key {
						present = true
					}
				}
			}
			if n.op == constants.Add && !present {
				bad("C16/resolved-add-snapshot-lacks-entry", "ADD notification for %s %s@%s (step %d): the snapshot does not contain the entry", n.table, n.key, n.ni, n.step)
			}
			if n.op == constants.Delete && present {
				bad("C16/resolved-delete-snapshot-contains-entry", "DELETE notification for %s %s@%s (step %d): the snapshot still contains the entry", n.table, n.key, n.ni, n.step)
			}
			if now := snapCanon(n.ribs); now != n.clone && !o.Lag {
				bad("C16/resolved-snapshot-changed-by-later-operations", "the snapshot delivered at step %d (%s %s %s@%s) was modified by later operations", n.step, n.op, n.table, n.key, n.ni)
			}
		}
		if in.hookFold != nil {
			// the post-change hook under the controlled runtime: with every notification delivered (also those a
			// change might hand to goroutines of its own), folding them must give the RIB's contents
			rt.Quiesce()
			if d := ribx.Diff(in.fold, in.hookFold); d != "" {
				bad("C16/hook-fold-differs-at-quiescence/"+ribx.DiffKinds(in.fold, in.hookFold), "with every notification delivered, folding the post-change notifications differs from the RIB: %s", d)
			}
		}
		canon = in.Canon()
	})
	switch {
	case x.Crash != "":
		bad("crash", "%s", x.Crash)
	case x.Deadlock:
		bad("C16/deadlock-with-resolved-entry-hook", "blocked: %v", x.Blocked)
	}
	if canon == "" {
		canon = fmt.Sprint("aborted", hist)
	}
	return canon, fails
}
