package ribhist

import "github.com/openconfig/gribigo/aft"

type (
	aftIPv4 = aft.Afts_Ipv4Entry
	aftIPv6 = aft.Afts_Ipv6Entry
	aftMPLS = aft.Afts_LabelEntry
	aftNHG  = aft.Afts_NextHopGroup
	aftNH   = aft.Afts_NextHop
)
