// Package ribhist is the history-BFS harness over a real rib.RIB shared by C01, C02, C03 and C16: one
// Instance type that applies AFT operations / flushes to the real object, folds the object's own
// acknowledgements over the reference model, and evaluates the oracles of the selected property.
package ribhist

import (
	"fmt"
	"github.com/openconfig/gribigo/server"
	"os"
	"sort"
	"strings"

	"github.com/openconfig/gribigo/constants"
	"github.com/openconfig/gribigo/rib"
	"github.com/openconfig/ygot/ygot"
	"google.golang.org/protobuf/proto"

	"verif/harness/ribx"
	"verif/mc"

	aftpb "github.com/openconfig/gribi/v1/proto/gribi_aft"
	spb "github.com/openconfig/gribi/v1/proto/service"
)

const (
	D = "DEFAULT"
	V = "VRF"
)

// Letter is one element of the alphabet: an AFT operation template or a flush.
type Letter struct {
	Name  string
	NI    string
	Op    spb.AFTOperation_Operation
	Entry proto.Message // nil for flush
	Flush []string      // network instances to flush
	// Invalid marks a definitely-invalid operation (zero id, unknown referenced NI, ...): must be FAILED.
	Invalid bool
}

const (
	add = spb.AFTOperation_ADD
	rep = spb.AFTOperation_REPLACE
	del = spb.AFTOperation_DELETE
)

func m(idx, w uint64) [2]uint64 { return [2]uint64{idx, w} }

// Alphabet returns the named letters.
func Alphabet(names ...string) []Letter {
	all := map[string]Letter{}
	reg := func(l Letter) { all[l.Name] = l }
	// next-hops
	// payload "a" sets more fields than payload "b": replacing a by b must drop them (and b by a must add them)
	rich := ribx.NHEntry(1, "1.1.1.1")
	rich.NextHop.MacAddress = ribx.S("02:00:00:00:00:01")
	rich.NextHop.InterfaceRef = &aftpb.Afts_NextHop_InterfaceRef{Interface: ribx.S("eth0"), Subinterface: ribx.U(3)}
	rich.NextHop.PushedMplsLabelStack = []*aftpb.Afts_NextHop_PushedMplsLabelStackUnion{{PushedMplsLabelStackUint64: 100}, {PushedMplsLabelStackUint64: 200}}
	reg(Letter{Name: "ADD nh1@D a", NI: D, Op: add, Entry: rich})
	reg(Letter{Name: "ADD nh1@D b", NI: D, Op: add, Entry: ribx.NHEntry(1, "2.2.2.2")})
	reg(Letter{Name: "REPLACE nh1@D b", NI: D, Op: rep, Entry: ribx.NHEntry(1, "2.2.2.2")})
	reg(Letter{Name: "DELETE nh1@D", NI: D, Op: del, Entry: ribx.NHEntry(1, "")})
	reg(Letter{Name: "ADD nh2@D", NI: D, Op: add, Entry: ribx.NHEntry(2, "3.3.3.3")})
	reg(Letter{Name: "DELETE nh2@D", NI: D, Op: del, Entry: ribx.NHEntry(2, "")})
	reg(Letter{Name: "ADD nh1@V", NI: V, Op: add, Entry: ribx.NHEntry(1, "4.4.4.4")})
	reg(Letter{Name: "DELETE nh1@V", NI: V, Op: del, Entry: ribx.NHEntry(1, "")})
	reg(Letter{Name: "ADD nh3@D", NI: D, Op: add, Entry: ribx.NHEntry(3, "5.5.5.5")})
	// groups
	reg(Letter{Name: "ADD nhg1@D {1}", NI: D, Op: add, Entry: ribx.NHGEntry(1, 0, m(1, 1))})
	reg(Letter{Name: "ADD nhg1@D {1,2}", NI: D, Op: add, Entry: ribx.NHGEntry(1, 0, m(1, 1), m(2, 3))})
	reg(Letter{Name: "ADD nhg1@D {2}", NI: D, Op: add, Entry: ribx.NHGEntry(1, 0, m(2, 1))})
	reg(Letter{Name: "ADD nhg1@D {1,1}", NI: D, Op: add, Entry: ribx.NHGEntry(1, 0, m(1, 1), m(1, 1))})
	reg(Letter{Name: "REPLACE nhg1@D {2}", NI: D, Op: rep, Entry: ribx.NHGEntry(1, 0, m(2, 1))})
	reg(Letter{Name: "DELETE nhg1@D", NI: D, Op: del, Entry: ribx.NHGEntry(1, 0)})
	reg(Letter{Name: "ADD nhg2@D {1}", NI: D, Op: add, Entry: ribx.NHGEntry(2, 0, m(1, 1))})
	reg(Letter{Name: "ADD nhg2@D {2}", NI: D, Op: add, Entry: ribx.NHGEntry(2, 0, m(2, 1))})
	reg(Letter{Name: "ADD nhg2@D {3}", NI: D, Op: add, Entry: ribx.NHGEntry(2, 0, m(3, 1))})
	// backup groups are neither checked for resolvability nor do they protect the group they name
	reg(Letter{Name: "ADD nhg2@D {2} backup 1", NI: D, Op: add, Entry: ribx.NHGEntry(2, 1, m(2, 1))})
	reg(Letter{Name: "DELETE nhg2@D", NI: D, Op: del, Entry: ribx.NHGEntry(2, 0)})
	reg(Letter{Name: "ADD nhg1@V {1}", NI: V, Op: add, Entry: ribx.NHGEntry(1, 0, m(1, 1))})
	reg(Letter{Name: "DELETE nhg1@V", NI: V, Op: del, Entry: ribx.NHGEntry(1, 0)})
	// ipv4
	reg(Letter{Name: "ADD v4 p@D ->1", NI: D, Op: add, Entry: ribx.V4Entry("10.0.0.0/8", 1, "", nil)})
	reg(Letter{Name: "ADD v4 p@D ->1 meta", NI: D, Op: add, Entry: ribx.V4Entry("10.0.0.0/8", 1, "", []byte{7})})
	reg(Letter{Name: "ADD v4 p@D ->2", NI: D, Op: add, Entry: ribx.V4Entry("10.0.0.0/8", 2, "", nil)})
	reg(Letter{Name: "ADD v4 p@D ->1@V", NI: D, Op: add, Entry: ribx.V4Entry("10.0.0.0/8", 1, V, nil)})
	reg(Letter{Name: "REPLACE v4 p@D ->1 meta", NI: D, Op: rep, Entry: ribx.V4Entry("10.0.0.0/8", 1, "", []byte{7})})
	reg(Letter{Name: "REPLACE v4 p@D ->2", NI: D, Op: rep, Entry: ribx.V4Entry("10.0.0.0/8", 2, "", nil)})
	reg(Letter{Name: "DELETE v4 p@D", NI: D, Op: del, Entry: ribx.V4Entry("10.0.0.0/8", 0, "", nil)})
	reg(Letter{Name: "ADD v4 p@V ->1@D", NI: V, Op: add, Entry: ribx.V4Entry("10.0.0.0/8", 1, D, nil)})
	reg(Letter{Name: "ADD v4 p@V ->1", NI: V, Op: add, Entry: ribx.V4Entry("10.0.0.0/8", 1, "", nil)})
	reg(Letter{Name: "DELETE v4 p@V", NI: V, Op: del, Entry: ribx.V4Entry("10.0.0.0/8", 0, "", nil)})
	reg(Letter{Name: "ADD v4 r@D ->1", NI: D, Op: add, Entry: ribx.V4Entry("192.168.0.0/16", 1, "", nil)})
	reg(Letter{Name: "DELETE v4 r@D", NI: D, Op: del, Entry: ribx.V4Entry("192.168.0.0/16", 0, "", nil)})
	// ipv6
	reg(Letter{Name: "ADD v6 q@D ->1", NI: D, Op: add, Entry: ribx.V6Entry("2001:db8::/32", 1, "", nil)})
	reg(Letter{Name: "ADD v6 q@D ->2", NI: D, Op: add, Entry: ribx.V6Entry("2001:db8::/32", 2, "", nil)})
	reg(Letter{Name: "ADD v6 q@D ->1@V", NI: D, Op: add, Entry: ribx.V6Entry("2001:db8::/32", 1, V, nil)})
	reg(Letter{Name: "ADD mpls 100@D ->1@V", NI: D, Op: add, Entry: ribx.MPLSEntry(100, 1, V, nil)})
	reg(Letter{Name: "DELETE v6 q@D", NI: D, Op: del, Entry: ribx.V6Entry("2001:db8::/32", 0, "", nil)})
	// prefixes with host bits set (schema-valid; distinct keys from their network addresses p and q)
	reg(Letter{Name: "ADD v4 P@D ->1", NI: D, Op: add, Entry: ribx.V4Entry("10.1.2.3/8", 1, "", nil)})
	reg(Letter{Name: "DELETE v4 P@D", NI: D, Op: del, Entry: ribx.V4Entry("10.1.2.3/8", 0, "", nil)})
	reg(Letter{Name: "ADD v6 H@D ->1", NI: D, Op: add, Entry: ribx.V6Entry("2001:db8::1/32", 1, "", nil)})
	reg(Letter{Name: "DELETE v6 H@D", NI: D, Op: del, Entry: ribx.V6Entry("2001:db8::1/32", 0, "", nil)})
	// a second IPv6 key in a valid but not RFC 5952-canonical spelling (the client uses it consistently)
	reg(Letter{Name: "ADD v6 Q@D ->1", NI: D, Op: add, Entry: ribx.V6Entry("2001:DB8:0:0::/48", 1, "", nil)})
	reg(Letter{Name: "ADD v6 Q@D ->2", NI: D, Op: add, Entry: ribx.V6Entry("2001:DB8:0:0::/48", 2, "", nil)})
	reg(Letter{Name: "DELETE v6 Q@D", NI: D, Op: del, Entry: ribx.V6Entry("2001:DB8:0:0::/48", 0, "", nil)})
	// mpls
	reg(Letter{Name: "ADD mpls 100@D ->1", NI: D, Op: add, Entry: ribx.MPLSEntry(100, 1, "", nil)})
	reg(Letter{Name: "ADD mpls 100@D ->2", NI: D, Op: add, Entry: ribx.MPLSEntry(100, 2, "", nil)})
	reg(Letter{Name: "REPLACE mpls 100@D ->1@V", NI: D, Op: rep, Entry: ribx.MPLSEntry(100, 1, V, nil)})
	reg(Letter{Name: "DELETE mpls 100@D", NI: D, Op: del, Entry: ribx.MPLSEntry(100, 0, "", nil)})
	reg(Letter{Name: "DELETE mpls 2^32+100@D", NI: D, Op: del, Entry: ribx.MPLSEntry(1<<32+100, 0, "", nil), Invalid: true})
	// flushes
	reg(Letter{Name: "FLUSH D", Flush: []string{D}})
	reg(Letter{Name: "FLUSH V", Flush: []string{V}})
	reg(Letter{Name: "FLUSH all", Flush: []string{D, V}})
	// definitely invalid
	reg(Letter{Name: "ADD nhg3@D {0}", NI: D, Op: add, Entry: ribx.NHGEntry(3, 0, m(0, 1)), Invalid: true})
	reg(Letter{Name: "ADD nhg3@D {}", NI: D, Op: add, Entry: ribx.NHGEntry(3, 0), Invalid: true})
	reg(Letter{Name: "ADD v4 s@D ->0", NI: D, Op: add, Entry: ribx.V4Entry("172.16.0.0/12", 0, "", nil), Invalid: true})
	reg(Letter{Name: "ADD v4 s@D ->1@NOPE", NI: D, Op: add, Entry: ribx.V4Entry("172.16.0.0/12", 1, "NOPE", nil), Invalid: true})

	// the generated, symmetric alphabet (FullAlphabet): every entry kind x network instance x {own group 1, own
	// group 2, group 1 of the other instance, with metadata} x ADD / REPLACE / DELETE; groups and next-hops alike
	for name, l := range generated() {
		if _, ok := all[name]; !ok {
			all[name] = l
		}
	}
	if len(names) == 0 {
		for n := range all {
			names = append(names, n)
		}
		sort.Strings(names)
	}
	out := make([]Letter, 0, len(names))
	for _, n := range names {
		l, ok := all[n]
		if !ok {
			panic("ribhist: unknown letter " + n)
		}
		out = append(out, l)
	}
	return out
}

// Names lists the letter names.
func Names(ls []Letter) []string {
	out := make([]string, len(ls))
	for i, l := range ls {
		out[i] = l.Name
	}
	return out
}

// Checks selects the oracles to evaluate.
type Checks struct {
	Fold      bool // C01
	Resolve   bool // C02
	Referrers bool // C03
	Hooks     bool // C16
	// GetFold (C07, history tier): the real GetRIB is run after EVERY step (also while replaying a prefix, so
	// that anything a Get leaves behind in the implementation is part of the history) and, on the checked step,
	// its stream must equal the fold of acknowledged operations.
	GetFold bool
}

// AllInvariants (default; VERIF_NARROW_ORACLES=1 switches it off) makes every search evaluate all state invariants.
var AllInvariants = os.Getenv("VERIF_NARROW_ORACLES") == ""

// HookConfig selects how the change hook is attached (C16).
type HookConfig int

const (
	NoHook        HookConfig = iota
	HookAfterNIs             // all network instances exist when SetPostChangeHook is called
	HookBeforeNIs            // the hook is registered first, network instances are added afterwards
	// the RIB is the one of a real server built with server.New: the hook comes in as a server option, the second
	// network instance through WithVRFs - options in both orders (what users of the server actually write)
	HookServerOptVRFsFirst
	HookServerOptHookFirst
)

// Options configures instances.
type Options struct {
	Letters   []Letter
	NoFwdRefs bool
	// LateVRF: the second network instance is created only AFTER the Init history was applied (to the default instance)
	// and the contents were read once - whatever the RIB memoises about its set of network instances by then must not
	// hide the later one (no-hook and HookAfterNIs configurations).
	LateVRF bool
	// NoCheckFn builds the RIB with rib.DisableRIBCheckFn(): no resolvability / referrer checks at all, every valid
	// operation is installed at once. Only the fold oracle (C01) applies.
	NoCheckFn   bool
	Checks      Checks
	Hook        HookConfig
	ObsVerdicts bool // differential oracle: delete verdict positivity per key
	// Init is a history applied to every fresh instance before the search starts (searching from a non-initial
	// state: "everything installed" reaches retargeting behaviour at small depth).
	Init []Letter
	// Lag (resolved-entry tier): the hook goroutines run only after the whole history has been applied.
	Lag bool
}

type inst struct {
	o    *Options
	r    *rib.RIB
	fold *ribx.Model
	step uint64
	sent map[uint64]*spb.AFTOperation
	// answered ids
	answered map[uint64]string
	// partial is set once a flush of a strict subset of the network instances happened (C02 closure premise).
	partial bool
	// hook fold (C16)
	hookFold *ribx.Model
	hookErr  []string
	// lastOks are the acknowledgements returned by the last AddEntry / DeleteEntry call.
	lastOks []*rib.OpResult
}

// New returns the constructor for mc.Config.
func New(o *Options) func() mc.Instance {
	return func() mc.Instance {
		var opts []rib.RIBOpt
		if o.NoFwdRefs {
			opts = append(opts, rib.DisableForwardReferences())
		}
		if o.NoCheckFn {
			opts = append(opts, rib.DisableRIBCheckFn())
		}
		if AllInvariants && !o.NoCheckFn {
			// Every RIB-tier search evaluates every state invariant, whatever property it was written for: contents =
			// fold of the acknowledgements (C01), resolvability / held operations (C02), protection counters = referrers
			// (C03). A defect that breaks one of them in a state that only another property's search reaches is then
			// reported by that search (under the signature of the invariant it breaks).
			oc := *o
			oc.Checks.Fold, oc.Checks.Resolve, oc.Checks.Referrers = true, true, true
			o = &oc
		}
		in := &inst{o: o, fold: ribx.NewModel(D, V), sent: map[uint64]*spb.AFTOperation{}, answered: map[uint64]string{}}
		in.r = rib.New(D, opts...)
		switch o.Hook {
		case HookServerOptVRFsFirst, HookServerOptHookFirst:
			in.hookFold = ribx.NewModel(D, V)
			hook := server.WithPostChangeRIBHook(func(ot constants.OpType, ts int64, ni string, data ygot.ValidatedGoStruct) {
				in.onHook(ot, ni, data)
			})
			sopts := []server.ServerOpt{server.WithVRFs([]string{V}), hook}
			if o.Hook == HookServerOptHookFirst {
				sopts = []server.ServerOpt{hook, server.WithVRFs([]string{V})}
			}
			if o.NoFwdRefs {
				sopts = append(sopts, server.WithNoRIBForwardReferences())
			}
			srv, err := server.New(sopts...)
			must(err)
			in.r = srv.VerifRIB()
		case HookAfterNIs:
			if !o.LateVRF {
				must(in.r.AddNetworkInstance(V))
			}
			in.attachHook()
		case HookBeforeNIs:
			in.attachHook()
			must(in.r.AddNetworkInstance(V))
		default:
			if !o.LateVRF {
				must(in.r.AddNetworkInstance(V))
			}
		}
		for _, l := range o.Init {
			in.apply(l, false)
		}
		if o.LateVRF && (o.Hook == NoHook || o.Hook == HookAfterNIs) {
			if _, err := in.r.RIBContents(); err != nil {
				panic(err)
			}
			if o.Checks.GetFold {
				if _, err := in.getAll(); err != nil {
					panic(err)
				}
			}
			must(in.r.AddNetworkInstance(V))
		}
		return in
	}
}

func must(err error) {
	if err != nil {
		panic(err)
	}
}

func (in *inst) attachHook() {
	in.hookFold = ribx.NewModel(D, V)
	in.r.SetPostChangeHook(func(ot constants.OpType, ts int64, ni string, data ygot.ValidatedGoStruct) {
		in.onHook(ot, ni, data)
	})
}

func (in *inst) Apply(li int, check bool) []mc.Fail {
	return in.apply(in.o.Letters[li], check)
}

func (in *inst) apply(l Letter, check bool) []mc.Fail {
	out := in.apply1(l, check)
	if in.o.Checks.GetFold {
		got, err := in.getAll()
		if check {
			switch {
			case err != nil:
				out = append(out, mc.Fail{Sig: "C07/get-error", What: err.Error()})
			default:
				if d := ribx.Diff(in.fold, got); d != "" {
					out = append(out, mc.Fail{Sig: "C07/get-stream-differs-from-acknowledged-state/" + ribx.DiffKinds(in.fold, got), What: fmt.Sprintf("after %s: the Get stream differs from the fold of acknowledged operations: %s", l.Name, d)})
				}
			}
		}
	}
	return out
}

// getAll runs the real RIBHolder.GetRIB(ALL) of every network instance and returns the stream in model form.
func (in *inst) getAll() (*ribx.Model, error) {
	m := ribx.NewModel(D, V)
	for _, ni := range in.r.KnownNetworkInstances() {
		h, _ := in.r.NetworkInstanceRIB(ni)
		msgCh := make(chan *spb.GetResponse)
		stopCh := make(chan struct{})
		errCh := make(chan error, 1)
		go func() {
			errCh <- h.GetRIB(map[spb.AFTType]bool{spb.AFTType_ALL: true}, msgCh, stopCh)
			close(msgCh)
		}()
		for r := range msgCh {
			for _, e := range r.GetEntry() {
				var k ribx.Kind
				var key string
				var p proto.Message
				switch t := e.GetEntry().(type) {
				case *spb.AFTEntry_Ipv4:
					k, key, p = ribx.V4, t.Ipv4.GetPrefix(), t.Ipv4
				case *spb.AFTEntry_Ipv6:
					k, key, p = ribx.V6, t.Ipv6.GetPrefix(), t.Ipv6
				case *spb.AFTEntry_Mpls:
					k, key, p = ribx.MPLS, fmt.Sprint(t.Mpls.GetLabelUint64()), t.Mpls
				case *spb.AFTEntry_NextHopGroup:
					k, key, p = ribx.NHG, fmt.Sprint(t.NextHopGroup.GetId()), t.NextHopGroup
				case *spb.AFTEntry_NextHop:
					k, key, p = ribx.NH, fmt.Sprint(t.NextHop.GetIndex()), t.NextHop
				}
				if m.Has(e.GetNetworkInstance(), k, key) {
					return nil, fmt.Errorf("Get streamed %s %s@%s twice", k, key, e.GetNetworkInstance())
				}
				m.Set(e.GetNetworkInstance(), k, key, p)
			}
		}
		if err := <-errCh; err != nil {
			return nil, err
		}
	}
	return m, nil
}

func (in *inst) apply1(l Letter, check bool) []mc.Fail {
	in.step++
	if l.Entry == nil {
		return in.flush(l, check)
	}
	op := ribx.Op(in.step, l.NI, l.Op, proto.Clone(l.Entry))
	in.sent[op.Id] = op
	heldBefore := map[uint64]bool{}
	for _, p := range in.r.VerifPending() {
		heldBefore[p.ID] = true
	}
	before := in.fold
	if check {
		before = in.fold.Clone()
	}
	var oks, fails []*rib.OpResult
	var err error
	if l.Op == del {
		oks, fails, err = in.r.DeleteEntry(l.NI, op)
	} else {
		oks, fails, err = in.r.AddEntry(l.NI, op)
	}
	in.lastOks = oks
	var out []mc.Fail
	bad := func(sig, format string, a ...any) {
		out = append(out, mc.Fail{Sig: sig, What: fmt.Sprintf(format, a...)})
	}
	if err != nil {
		bad("rib/fatal-error-for-valid-operation", "operation %s returned fatal error %v", l.Name, err)
	}

	// Fold the implementation's own acknowledgements, in order.
	cur := before.Clone()
	seenAck := map[uint64]bool{}
	for _, ok := range oks {
		aop := in.sent[ok.ID]
		if aop == nil {
			bad("ack/unknown-id", "acknowledged operation id %d was never sent", ok.ID)
			continue
		}
		if seenAck[ok.ID] || in.answered[ok.ID] != "" {
			if in.o.Checks.Resolve {
				bad("ack/answered-twice", "operation %d (%s) answered again (earlier: %s)", ok.ID, ribx.Text(aop), in.answered[ok.ID])
			}
		}
		seenAck[ok.ID] = true
		if ok.ID != op.Id && !heldBefore[ok.ID] && in.o.Checks.Resolve {
			bad("ack/not-held", "operation %d acknowledged in a later call although it was not held", ok.ID)
		}
		if in.o.Checks.Resolve && check && aop.GetOp() != del {
			k, _, p := ribx.Describe(aop)
			if !cur.Resolvable(aop.GetNetworkInstance(), p) {
				bad("C02/acked-while-unresolved/"+k.String(), "operation %d (%s) acknowledged as programmed while a reference is not installed", ok.ID, ribx.Text(aop))
			}
		}
		if !cur.Apply(aop) && in.o.Checks.Fold && check {
			k, _, _ := ribx.Describe(aop)
			bad("C01/replace-of-missing-key-acked/"+k.String(), "REPLACE %d (%s) acknowledged although the key is not installed", ok.ID, ribx.Text(aop))
		}
		in.answered[ok.ID] = "OK"
	}
	for _, f := range fails {
		if (seenAck[f.ID] || in.answered[f.ID] != "") && in.o.Checks.Resolve {
			bad("ack/answered-twice", "operation %d answered FAILED after/again (earlier: %s)", f.ID, in.answered[f.ID])
		}
		seenAck[f.ID] = true
		in.answered[f.ID] = "FAILED"
		// a held ADD was valid when it was accepted and nothing makes an ADD invalid later: it ends by being
		// installed (or cancelled / flushed with its session), never by a FAILED in the answer to another operation
		if f.ID != op.Id && heldBefore[f.ID] && in.o.Checks.Resolve {
			if hop := in.sent[f.ID]; hop != nil && hop.GetOp() == add {
				bad("C02/held-add-answered-failed", "held operation %d (%s) was answered FAILED in the answer to %s", f.ID, ribx.Text(hop), l.Name)
			}
		}
	}
	in.fold = cur
	if !check {
		return nil
	}

	// Verdict of the submitted operation against the model's prediction (sequential specification).
	if in.o.Checks.Resolve || in.o.Checks.Referrers {
		k, key, p := ribx.Describe(op)
		got := "HELD"
		if v := in.answered[op.Id]; v != "" {
			got = v
		}
		want := ""
		switch {
		case l.Op == del:
			want = "OK"
			if l.Invalid {
				want = "FAILED"
			}
			if (k == ribx.NH || k == ribx.NHG) && before.Has(l.NI, k, key) && before.Referrers(l.NI, k, key) > 0 {
				want = "FAILED"
			}
			if got != want && in.o.Checks.Referrers {
				bad(fmt.Sprintf("C03/delete-verdict/%s/want-%s-got-%s", k, want, got), "%s: %d installed referrers, installed=%v, answered %s", l.Name, before.Referrers(l.NI, k, key), before.Has(l.NI, k, key), got)
			}
		case l.Invalid:
			want = "FAILED"
		case l.Op == rep && !before.Has(l.NI, k, key):
			want = "FAILED"
		case before.Resolvable(l.NI, p):
			want = "OK"
		case in.o.NoFwdRefs:
			want = "FAILED"
		default:
			want = "HELD"
		}
		if l.Op != del && got != want && in.o.Checks.Resolve {
			bad(fmt.Sprintf("C02/verdict/%s-%s/want-%s-got-%s", l.Op, k, want, got), "%s answered %s, the model says %s", l.Name, got, want)
		}
	}
	out = append(out, in.stateChecks(l)...)
	return out
}

func (in *inst) flush(l Letter, check bool) []mc.Fail {
	var out []mc.Fail
	err := in.r.Flush(l.Flush)
	if len(l.Flush) < len(in.fold.NIs) {
		in.partial = true
	}
	in.fold.Flush(l.Flush...)
	if !check {
		return nil
	}
	if err != nil && in.o.Checks.Fold {
		out = append(out, mc.Fail{Sig: "C01/flush-error", What: fmt.Sprintf("%s returned %v", l.Name, err)})
	}
	return append(out, in.stateChecks(l)...)
}

// stateChecks evaluates the state oracles after a step.
func (in *inst) stateChecks(l Letter) []mc.Fail {
	var out []mc.Fail
	bad := func(sig, format string, a ...any) {
		out = append(out, mc.Fail{Sig: sig, What: fmt.Sprintf(format, a...)})
	}
	real, err := ribx.Snapshot(in.r)
	if err != nil {
		bad("rib/snapshot-error", "cannot read RIB contents: %v", err)
		return out
	}
	c := in.o.Checks
	if c.Fold {
		if d := ribx.Diff(in.fold, real); d != "" {
			bad("C01/contents-differ-from-fold/"+ribx.DiffKinds(in.fold, real), "after %s: installed state differs from the fold of acknowledged operations: %s", l.Name, d)
		}
	}
	if c.Resolve {
		if !in.partial {
			if dl := real.Dangling(); len(dl) > 0 {
				bad("C02/dangling-installed-entry", "after %s: installed entries with unresolved references: %v", l.Name, dl)
			}
		}
		held := in.r.VerifPending()
		// every operation that was sent and has not been answered must still be held: an operation that silently
		// drops out of the pending queue (e.g. discarded by a Flush) can never be answered when it becomes resolvable
		heldNow := map[uint64]bool{}
		for _, p := range held {
			heldNow[p.ID] = true
		}
		for id, op := range in.sent {
			if in.answered[id] == "" && !heldNow[id] {
				bad("C02/unanswered-operation-no-longer-held", "after %s: operation %d (%s) was neither acknowledged nor failed and is not held any more: it can never be answered", l.Name, id, ribx.Text(op))
			}
		}
		if in.o.NoFwdRefs && len(held) > 0 {
			bad("C02/held-in-no-forward-reference-mode", "%d operations held although forward references are disallowed", len(held))
		}
		for _, p := range held {
			k, key, pl := ribx.Describe(p.Op)
			if in.answered[p.ID] != "" {
				bad("C02/answered-operation-still-held/"+in.answered[p.ID], "operation %d (%s) was answered %s but is still held", p.ID, ribx.Text(p.Op), in.answered[p.ID])
				continue
			}
			if real.Resolvable(p.NI, pl) && (p.Op.GetOp() == add || real.Has(p.NI, k, key)) {
				bad("C02/resolvable-operation-left-held/"+k.String(), "after %s: held operation %d (%s) is resolvable but unanswered", l.Name, p.ID, ribx.Text(p.Op))
			}
		}
	}
	if c.Resolve && !c.Referrers {
		// "no installed entry ever dangles" also needs every referenced group / next-hop to be protected NOW: one that
		// is referenced but whose protection counter is zero is a single acknowledged DELETE away from a dangling
		// entry (the other direction - protected although unreferenced - only concerns C03).
		rc := in.r.VerifRefCounts()
		for _, e := range real.E {
			if e.Kind != ribx.NH && e.Kind != ribx.NHG {
				continue
			}
			var cnt, id uint64
			fmt.Sscan(e.Key, &id)
			if e.Kind == ribx.NH {
				cnt = rc[e.NI].NextHop[id]
			} else {
				cnt = rc[e.NI].NextHopGroup[id]
			}
			if refs := real.Referrers(e.NI, e.Kind, e.Key); refs > 0 && cnt == 0 {
				bad("C02/referenced-entry-is-unprotected/"+e.Kind.String(), "after %s: %s %s@%s has %d installed referrers but its deletion protection counter is 0: a DELETE would be acknowledged and leave them dangling", l.Name, e.Kind, e.Key, e.NI, refs)
			}
		}
	}
	if c.Referrers {
		rc := in.r.VerifRefCounts()
		for _, e := range real.E {
			if e.Kind != ribx.NH && e.Kind != ribx.NHG {
				continue
			}
			var cnt uint64
			var id uint64
			fmt.Sscan(e.Key, &id)
			if e.Kind == ribx.NH {
				cnt = rc[e.NI].NextHop[id]
			} else {
				cnt = rc[e.NI].NextHopGroup[id]
			}
			refs := real.Referrers(e.NI, e.Kind, e.Key)
			if (cnt > 0) != (refs > 0) {
				bad(fmt.Sprintf("C03/protection-differs-from-referrers/%s/counter-%s-referrers-%s", e.Kind, pos(int(cnt)), pos(refs)), "after %s: %s %s@%s has %d installed referrers but deletion protection counter %d", l.Name, e.Kind, e.Key, e.NI, refs, cnt)
			}
		}
		// ... and no counter may survive for a key that nothing references, installed or not: a stale counter of a
		// key that is not installed (left behind by a Flush, say) refuses the DELETE of the key as soon as it is
		// installed again
		for ni, c := range rc {
			for kind, m := range map[ribx.Kind]map[uint64]uint64{ribx.NH: c.NextHop, ribx.NHG: c.NextHopGroup} {
				for id, cnt := range m {
					if cnt > 0 && !real.Has(ni, kind, fmt.Sprint(id)) && real.Referrers(ni, kind, fmt.Sprint(id)) == 0 {
						bad("C03/stale-protection-counter/"+kind.String(), "after %s: %s %d@%s is not installed and nothing references it, but its deletion protection counter is %d", l.Name, kind, id, ni, cnt)
					}
				}
			}
		}
	}
	if c.Hooks && in.hookFold != nil {
		for _, e := range in.hookErr {
			bad("C16/bad-notification", "%s", e)
		}
		if d := ribx.Diff(real, in.hookFold); d != "" {
			bad("C16/hook-fold-differs/"+ribx.DiffKinds(real, in.hookFold), "after %s: folding the hook notifications does not give the installed state (want=RIB, got=fold): %s", l.Name, d)
		}
	}
	return out
}

func pos(n int) string {
	if n > 0 {
		return "positive"
	}
	return "zero"
}

func (in *inst) onHook(ot constants.OpType, ni string, data ygot.ValidatedGoStruct) {
	var kind ribx.Kind
	var key string
	var payload proto.Message
	var err error
	isNil := false
	switch e := data.(type) {
	case *aftIPv4:
		if isNil = e == nil; !isNil {
			var p *aftpb.Afts_Ipv4EntryKey
			p, err = rib.ConcreteIPv4Proto(e)
			kind, key, payload = ribx.V4, p.GetPrefix(), p
		}
	case *aftIPv6:
		if isNil = e == nil; !isNil {
			var p *aftpb.Afts_Ipv6EntryKey
			p, err = rib.ConcreteIPv6Proto(e)
			kind, key, payload = ribx.V6, p.GetPrefix(), p
		}
	case *aftMPLS:
		if isNil = e == nil; !isNil {
			var p *aftpb.Afts_LabelEntryKey
			p, err = rib.ConcreteMPLSProto(e)
			kind, key, payload = ribx.MPLS, fmt.Sprint(p.GetLabelUint64()), p
		}
	case *aftNHG:
		if isNil = e == nil; !isNil {
			var p *aftpb.Afts_NextHopGroupKey
			p, err = rib.ConcreteNextHopGroupProto(e)
			kind, key, payload = ribx.NHG, fmt.Sprint(p.GetId()), p
		}
	case *aftNH:
		if isNil = e == nil; !isNil {
			var p *aftpb.Afts_NextHopKey
			p, err = rib.ConcreteNextHopProto(e)
			kind, key, payload = ribx.NH, fmt.Sprint(p.GetIndex()), p
		}
	default:
		in.hookErr = append(in.hookErr, fmt.Sprintf("notification with unexpected payload type %T", data))
		return
	}
	if isNil {
		// A DELETE of a key that was not installed carries a nil entry: nothing to fold.
		if ot != constants.Delete {
			in.hookErr = append(in.hookErr, fmt.Sprintf("%s notification with nil entry", ot))
		}
		return
	}
	if err != nil {
		in.hookErr = append(in.hookErr, "cannot convert notification payload: "+err.Error())
		return
	}
	switch ot {
	case constants.Add, constants.Replace:
		in.hookFold.Set(ni, kind, key, payload)
	case constants.Delete:
		in.hookFold.Del(ni, kind, key)
	default:
		in.hookErr = append(in.hookErr, fmt.Sprintf("notification with op type %v", ot))
	}
}

func (in *inst) Canon() string {
	real, err := ribx.Snapshot(in.r)
	if err != nil {
		return "ERR:" + err.Error()
	}
	var sb strings.Builder
	sb.WriteString(real.Canon())
	sb.WriteString("||P:")
	sb.WriteString(ribx.PendingCanon(in.r))
	for i, p := range in.r.VerifPending() {
		if a := in.answered[p.ID]; a != "" {
			fmt.Fprintf(&sb, "#%d-answered-%s;", i, a)
		}
	}
	sb.WriteString("||R:")
	sb.WriteString(ribx.RefCanon(in.r))
	if in.partial {
		sb.WriteString("||partial")
	}
	if in.hookFold != nil {
		sb.WriteString("||H:")
		sb.WriteString(in.hookFold.Canon())
	}
	// the fold is part of the state of the oracle: two histories that reach the same real state with different
	// folds must both be kept (they differ only if C01 is already violated).
	sb.WriteString("||F:")
	sb.WriteString(in.fold.Canon())
	return sb.String()
}

func (in *inst) Obs() string { return "" }

// generated builds the symmetric alphabet. Names follow the hand-written letters ("ADD v6 q@V ->1@D").
func generated() map[string]Letter {
	out := map[string]Letter{}
	put := func(name, ni string, op spb.AFTOperation_Operation, e proto.Message) {
		out[name] = Letter{Name: name, NI: ni, Op: op, Entry: e}
	}
	type kindT struct {
		tag string
		mk  func(nhg uint64, ni string, meta []byte) proto.Message
	}
	kinds := []kindT{
		{"v4 p", func(g uint64, ni string, meta []byte) proto.Message { return ribx.V4Entry("10.0.0.0/8", g, ni, meta) }},
		{"v6 q", func(g uint64, ni string, meta []byte) proto.Message {
			return ribx.V6Entry("2001:db8::/32", g, ni, meta)
		}},
		{"mpls 100", func(g uint64, ni string, meta []byte) proto.Message { return ribx.MPLSEntry(100, g, ni, meta) }},
	}
	for _, ni := range []string{D, V} {
		other, t, ot := V, "D", "V"
		if ni == V {
			other, t, ot = D, "V", "D"
		}
		for _, k := range kinds {
			put(fmt.Sprintf("ADD %s@%s ->1", k.tag, t), ni, add, k.mk(1, "", nil))
			put(fmt.Sprintf("ADD %s@%s ->2", k.tag, t), ni, add, k.mk(2, "", nil))
			put(fmt.Sprintf("ADD %s@%s ->1@%s", k.tag, t, ot), ni, add, k.mk(1, other, nil))
			put(fmt.Sprintf("ADD %s@%s ->1 meta", k.tag, t), ni, add, k.mk(1, "", []byte{7}))
			// the entry's OWN instance named explicitly: the same reference as leaving the field unset
			put(fmt.Sprintf("ADD %s@%s ->1@own", k.tag, t), ni, add, k.mk(1, ni, nil))
			put(fmt.Sprintf("REPLACE %s@%s ->2", k.tag, t), ni, rep, k.mk(2, "", nil))
			put(fmt.Sprintf("REPLACE %s@%s ->1@%s", k.tag, t, ot), ni, rep, k.mk(1, other, nil))
			put(fmt.Sprintf("DELETE %s@%s", k.tag, t), ni, del, k.mk(0, "", nil))
		}
		put(fmt.Sprintf("ADD nhg1@%s {1}", t), ni, add, ribx.NHGEntry(1, 0, m(1, 1)))
		put(fmt.Sprintf("ADD nhg1@%s {1,2}", t), ni, add, ribx.NHGEntry(1, 0, m(1, 1), m(2, 3)))
		put(fmt.Sprintf("ADD nhg1@%s {2}", t), ni, add, ribx.NHGEntry(1, 0, m(2, 1)))
		put(fmt.Sprintf("REPLACE nhg1@%s {2}", t), ni, rep, ribx.NHGEntry(1, 0, m(2, 1)))
		put(fmt.Sprintf("DELETE nhg1@%s", t), ni, del, ribx.NHGEntry(1, 0))
		put(fmt.Sprintf("ADD nhg2@%s {2}", t), ni, add, ribx.NHGEntry(2, 0, m(2, 1)))
		put(fmt.Sprintf("ADD nhg2@%s {2} backup 1", t), ni, add, ribx.NHGEntry(2, 1, m(2, 1)))
		put(fmt.Sprintf("DELETE nhg2@%s", t), ni, del, ribx.NHGEntry(2, 0))
		put(fmt.Sprintf("ADD nh1@%s b", t), ni, add, ribx.NHEntry(1, "2.2.2.2"))
		put(fmt.Sprintf("REPLACE nh1@%s b", t), ni, rep, ribx.NHEntry(1, "2.2.2.2"))
		put(fmt.Sprintf("DELETE nh1@%s", t), ni, del, ribx.NHEntry(1, ""))
		put(fmt.Sprintf("ADD nh2@%s", t), ni, add, ribx.NHEntry(2, "3.3.3.3"))
		put(fmt.Sprintf("DELETE nh2@%s", t), ni, del, ribx.NHEntry(2, ""))
	}
	put("ADD nh1@V", V, add, ribx.NHEntry(1, "4.4.4.4"))
	return out
}

// FullAlphabet lists the names of the symmetric alphabet plus the flushes and the richer payload of next-hop 1.
func FullAlphabet() []string {
	var names []string
	for n := range generated() {
		names = append(names, n)
	}
	names = append(names, "ADD nh1@D a", "FLUSH D", "FLUSH V", "FLUSH all")
	sort.Strings(names)
	return names
}
