// Package clienth explores the real client.Client (sender, receiver and convergence-waiter goroutines as
// threads of the controlled runtime) against a scripted adversarial server behind the in-memory transport.
// C13: every reply order / batching / protocol violation of the server x schedules, against a ledger model.
// C14: a stream fault at every message index on the send and on the receive side x codes x schedules, then
// Close or Reset + Connect + a further exchange; exact goroutine census from the scheduler.
package clienth

import (
	"context"
	"fmt"
	"io"
	"os"
	"sort"
	"strings"
	"time"

	"github.com/openconfig/gribigo/client"
	"github.com/openconfig/gribigo/constants"
	"google.golang.org/grpc/codes"
	"google.golang.org/grpc/status"

	"verif/harness/ribhist"
	"verif/harness/ribx"
	"verif/mc"
	"verif/report"
	"verif/rt"
	"verif/wire"

	spb "github.com/openconfig/gribi/v1/proto/service"
)

const D = "DEFAULT"

type item struct {
	id uint64
	st spb.AFTResult_Status
}

func (i item) String() string { return fmt.Sprintf("%d:%s", i.id, short(i.st)) }

func short(s spb.AFTResult_Status) string {
	switch s {
	case spb.AFTResult_RIB_PROGRAMMED:
		return "RIB"
	case spb.AFTResult_FIB_PROGRAMMED:
		return "FIB"
	case spb.AFTResult_FIB_FAILED:
		return "FIBFAIL"
	case spb.AFTResult_FAILED:
		return "FAILED"
	}
	return s.String()
}

func terminal(st spb.AFTResult_Status, fib bool) bool {
	switch st {
	case spb.AFTResult_FAILED, spb.AFTResult_FIB_PROGRAMMED, spb.AFTResult_FIB_FAILED:
		return true
	case spb.AFTResult_RIB_PROGRAMMED:
		return !fib
	}
	return false
}

// plan is what the scripted server sends in answer to the operations: a list of responses (batches of results).
type plan struct {
	batches   [][]item
	violation string // "", "unknown-id", "duplicate-terminal"
	stalled   uint64 // id whose terminal result is withheld (0 = none)
	desc      string
}

// plans enumerates every reply plan for n operations: per-operation outcome x interleaving of the per-operation
// sequences x batching of the merged sequence into responses, plus protocol-violating and stalling variants.
func plans(n int, fib bool, rich bool) []plan {
	var seqs [][][]item // per op: alternative sequences
	for id := uint64(1); id <= uint64(n); id++ {
		var alts [][]item
		if fib {
			alts = append(alts, []item{{id, spb.AFTResult_RIB_PROGRAMMED}, {id, spb.AFTResult_FIB_PROGRAMMED}})
			if rich {
				alts = append(alts, []item{{id, spb.AFTResult_RIB_PROGRAMMED}, {id, spb.AFTResult_FIB_FAILED}})
			}
		} else {
			alts = append(alts, []item{{id, spb.AFTResult_RIB_PROGRAMMED}})
		}
		if rich || id == 1 {
			alts = append(alts, []item{{id, spb.AFTResult_FAILED}})
		}
		seqs = append(seqs, alts)
	}
	var out []plan
	var pick func(i int, cur [][]item)
	pick = func(i int, cur [][]item) {
		if i == len(seqs) {
			for _, merged := range merges(cur) {
				for _, b := range compositions(merged) {
					out = append(out, plan{batches: b, desc: descBatches(b)})
				}
				// violations, each with the finest batching and with everything in one response
				k := len(merged)
				for pos := 0; pos < k; pos++ { // unknown id inserted before position pos (never last)
					v := append(append(append([]item{}, merged[:pos]...), item{99, spb.AFTResult_FAILED}), merged[pos:]...)
					out = append(out, plan{batches: singles(v), violation: "unknown-id", desc: "unknown-id " + descBatches(singles(v))})
					out = append(out, plan{batches: [][]item{v}, violation: "unknown-id", desc: "unknown-id " + descBatches([][]item{v})})
				}
				for pos := 0; pos < k-1; pos++ { // a terminal result repeated right after itself (never last)
					if !terminal(merged[pos].st, fib) {
						continue
					}
					v := append(append(append([]item{}, merged[:pos+1]...), merged[pos]), merged[pos+1:]...)
					out = append(out, plan{batches: singles(v), violation: "duplicate-terminal", desc: "duplicate-terminal " + descBatches(singles(v))})
					out = append(out, plan{batches: [][]item{v}, violation: "duplicate-terminal", desc: "duplicate-terminal " + descBatches([][]item{v})})
				}
				// a violation at the very end counts only when it shares the response with the results before it
				// (one response is processed atomically with respect to the convergence check)
				vend := append(append([]item{}, merged...), item{99, spb.AFTResult_FAILED})
				out = append(out, plan{batches: [][]item{vend}, violation: "unknown-id", desc: "unknown-id " + descBatches([][]item{vend})})
				if terminal(merged[k-1].st, fib) {
					dend := append(append([]item{}, merged...), merged[k-1])
					out = append(out, plan{batches: [][]item{dend}, violation: "duplicate-terminal", desc: "duplicate-terminal " + descBatches([][]item{dend})})
				}
				// stalled: the last item (a terminal) is never sent
				if last := merged[k-1]; terminal(last.st, fib) {
					out = append(out, plan{batches: singles(merged[:k-1]), stalled: last.id, desc: "stalled " + descBatches(singles(merged[:k-1]))})
				}
			}
			return
		}
		for _, a := range seqs[i] {
			pick(i+1, append(cur, a))
		}
	}
	pick(0, nil)
	return out
}

func singles(v []item) [][]item {
	var out [][]item
	for _, i := range v {
		out = append(out, []item{i})
	}
	return out
}

func descBatches(b [][]item) string {
	var parts []string
	for _, r := range b {
		var is []string
		for _, i := range r {
			is = append(is, i.String())
		}
		parts = append(parts, "["+strings.Join(is, " ")+"]")
	}
	return strings.Join(parts, "")
}

// merges returns all interleavings of the sequences that keep each sequence's order.
func merges(seqs [][]item) [][]item {
	var out [][]item
	idx := make([]int, len(seqs))
	total := 0
	for _, s := range seqs {
		total += len(s)
	}
	var rec func(cur []item)
	rec = func(cur []item) {
		if len(cur) == total {
			out = append(out, append([]item{}, cur...))
			return
		}
		for i, s := range seqs {
			if idx[i] < len(s) {
				idx[i]++
				rec(append(cur, s[idx[i]-1]))
				idx[i]--
			}
		}
	}
	rec(nil)
	return out
}

// compositions returns all ways of cutting the sequence into consecutive non-empty batches.
func compositions(seq []item) [][][]item {
	var out [][][]item
	n := len(seq)
	for mask := 0; mask < 1<<(n-1); mask++ {
		var b [][]item
		cur := []item{seq[0]}
		for i := 1; i < n; i++ {
			if mask&(1<<(i-1)) != 0 {
				b = append(b, cur)
				cur = nil
			}
			cur = append(cur, seq[i])
		}
		b = append(b, cur)
		out = append(out, b)
	}
	return out
}

// script is the adversarial server.
type script struct {
	spb.UnimplementedGRIBIServer
	nOps    int
	plans   []plan
	streams int
	// silentLater: streams after the first receive no answers to operations at all
	silentLater bool
	// name identifies the server in the event log (ReplaceStub: the new exchange must reach the NEW server)
	name string
}

// Modify answers parameters and election ids at once; when all operations have arrived it plays the plan chosen
// by the explorer. Later streams (after Reset + Connect) are answered by a well-behaved script.
func (s *script) Modify(ms spb.GRIBI_ModifyServer) error {
	s.streams++
	rt.Emit("srv-stream", s.streams)
	rt.Emit("srv-name", s.name)
	clean := s.streams > 1
	seen := 0
	lateParams := false
	for {
		in, err := ms.Recv()
		if err == io.EOF {
			return nil
		}
		if err != nil {
			return err
		}
		rt.Emit("srv-recv", describe(in))
		if clean && s.silentLater {
			continue // (not even the session parameters / election id are answered)
		}
		switch {
		case in.Params != nil:
			// the answer to the session parameters may overtake nothing, but nothing obliges the server to send it
			// before it starts answering operations: optionally it is sent after the first batch of results
			if !clean && len(s.plans) > 0 && rt.Choose(2, 0, "params-answer") == 1 {
				lateParams = true
				rt.Emit("params-late", true)
				continue
			}
			ms.Send(&spb.ModifyResponse{SessionParamsResult: &spb.SessionParametersResult{Status: spb.SessionParametersResult_OK}})
		case in.ElectionId != nil:
			ms.Send(&spb.ModifyResponse{ElectionId: in.ElectionId})
		default:
			if clean && s.silentLater {
				continue
			}
			if clean || len(s.plans) == 0 {
				for _, op := range in.Operation {
					rt.Emit("srv-terminal", op.Id)
					ms.Send(&spb.ModifyResponse{Result: []*spb.AFTResult{{Id: op.Id, Status: spb.AFTResult_RIB_PROGRAMMED}}})
				}
				continue
			}
			seen += len(in.Operation)
			if seen < s.nOps {
				continue
			}
			p := s.plans[rt.Choose(len(s.plans), 0, "reply-plan")]
			rt.Emit("plan", p)
			for bi, b := range p.batches {
				if bi == 1 && lateParams {
					lateParams = false
					ms.Send(&spb.ModifyResponse{SessionParamsResult: &spb.SessionParametersResult{Status: spb.SessionParametersResult_OK}})
				}
				var rs []*spb.AFTResult
				for _, it := range b {
					rs = append(rs, &spb.AFTResult{Id: it.id, Status: it.st})
				}
				for _, it := range b {
					rt.Emit("srv-sent", it)
				}
				ms.Send(&spb.ModifyResponse{Result: rs})
			}
			if lateParams {
				lateParams = false
				ms.Send(&spb.ModifyResponse{SessionParamsResult: &spb.SessionParametersResult{Status: spb.SessionParametersResult_OK}})
			}
		}
	}
}

func describe(m *spb.ModifyRequest) string {
	switch {
	case m.Params != nil:
		return "params"
	case m.ElectionId != nil:
		return "election"
	}
	var ids []string
	for _, o := range m.Operation {
		ids = append(ids, fmt.Sprint(o.Id))
	}
	return "ops[" + strings.Join(ids, ",") + "]"
}

func ops(n int) []*spb.AFTOperation {
	var out []*spb.AFTOperation
	mk := []func(id uint64) *spb.AFTOperation{
		func(id uint64) *spb.AFTOperation {
			return ribx.Op(id, D, spb.AFTOperation_ADD, ribx.NHEntry(10+id, "1.1.1.1"))
		},
		func(id uint64) *spb.AFTOperation {
			return ribx.Op(id, D, spb.AFTOperation_DELETE, ribx.V4Entry("10.0.0.0/8", 0, "", nil))
		},
		func(id uint64) *spb.AFTOperation {
			return ribx.Op(id, D, spb.AFTOperation_REPLACE, ribx.NHGEntry(20+id, 0, [2]uint64{1, 1}))
		},
	}
	for i := 0; i < n; i++ {
		o := mk[i%len(mk)](uint64(i + 1))
		o.ElectionId = &spb.Uint128{Low: 1}
		out = append(out, o)
	}
	return out
}

type final struct {
	awaitErr   string
	awaitNil   bool
	pending    []string
	results    []string
	sendErrs   int
	recvErrs   int
	terminals  map[uint64]int
	detailsBad []string
}

func newClient(fib bool) *client.Client {
	opts := []client.Opt{client.ElectedPrimaryClient(&spb.Uint128{Low: 1}), client.PersistEntries()}
	if fib {
		opts = append(opts, client.FIBACK())
	}
	c, err := client.New(opts...)
	if err != nil {
		panic(err)
	}
	return c
}

func snapshot(c *client.Client, sent []*spb.AFTOperation, fib bool) final {
	f := final{terminals: map[uint64]int{}}
	st, err := c.Status()
	if err != nil {
		f.detailsBad = append(f.detailsBad, "Status: "+err.Error())
		return f
	}
	f.sendErrs, f.recvErrs = len(st.SendErrs), len(st.ReadErrs)
	for _, p := range st.PendingTransactions {
		switch v := p.(type) {
		case *client.PendingOp:
			f.pending = append(f.pending, fmt.Sprintf("op%d", v.Op.GetId()))
		case *client.ElectionReqDetails:
			f.pending = append(f.pending, "election")
		case *client.SessionParamReqDetails:
			f.pending = append(f.pending, "params")
		}
	}
	byID := map[uint64]*spb.AFTOperation{}
	for _, o := range sent {
		byID[o.Id] = o
	}
	for _, r := range st.Results {
		if r == nil {
			f.results = append(f.results, "<nil>")
			continue
		}
		if r.OperationID == 0 {
			continue
		}
		f.results = append(f.results, fmt.Sprintf("%d:%s", r.OperationID, short(r.ProgrammingResult)))
		if terminal(r.ProgrammingResult, fib) {
			f.terminals[r.OperationID]++
		}
		if op, ok := byID[r.OperationID]; ok && r.Details != nil {
			wantT := constants.OpFromAFTOp(op.Op)
			k, key, _ := ribx.Describe(op)
			got := ""
			switch {
			case r.Details.NextHopIndex != 0:
				got = fmt.Sprintf("nh|%d", r.Details.NextHopIndex)
			case r.Details.NextHopGroupID != 0:
				got = fmt.Sprintf("nhg|%d", r.Details.NextHopGroupID)
			case r.Details.IPv4Prefix != "":
				got = "v4|" + r.Details.IPv4Prefix
			case r.Details.IPv6Prefix != "":
				got = "v6|" + r.Details.IPv6Prefix
			case r.Details.MPLSLabel != 0:
				got = fmt.Sprintf("mpls|%d", r.Details.MPLSLabel)
			}
			if r.Details.Type != wantT || got != k.String()+"|"+key {
				f.detailsBad = append(f.detailsBad, fmt.Sprintf("result for op %d carries %v %s, the operation is %v %s|%s", r.OperationID, r.Details.Type, got, wantT, k, key))
			}
		} else if ok && r.Details == nil {
			f.detailsBad = append(f.detailsBad, fmt.Sprintf("result %s for op %d carries no operation details", short(r.ProgrammingResult), r.OperationID))
		}
	}
	sort.Strings(f.pending)
	return f
}

// accountingBody is the C13 scenario.
func accountingBody(nOps int, fib bool, pl []plan) func() {
	return func() {
		srv := &script{nOps: nOps, plans: pl}
		stub := wire.New(srv)
		c := newClient(fib)
		if err := c.UseStub(stub); err != nil {
			panic(err)
		}
		if err := c.Connect(context.Background()); err != nil {
			panic(err)
		}
		sent := ops(nOps)
		mode := rt.Choose(2, 0, "queue-mode")
		if mode == 0 {
			// everything queued in one request before sending starts
			c.Q(&spb.ModifyRequest{Operation: sent})
			c.StartSending()
		} else {
			c.StartSending()
			for _, o := range sent {
				c.Q(&spb.ModifyRequest{Operation: []*spb.AFTOperation{o}})
			}
		}
		rt.Emit("handed", nOps)
		err := c.AwaitConverged(context.Background())
		rt.Emit("await-returned", fmt.Sprint(err))
		f := snapshot(c, sent, fib)
		f.awaitNil = err == nil
		f.awaitErr = fmt.Sprint(err)
		rt.Emit("final", f)
		c.Close()
		rt.Emit("closed", nil)
		rt.Quiesce()
	}
}

// reusedIDBody: the application hands the client two DIFFERENT operations under one id (inside one request, or in a
// later request while the first is still unanswered). The server answers every distinct id once. Whatever the client
// does with the second operation, it must not report convergence as if both had been programmed: an operation
// handed to it would be neither queued, pending nor resulted.
func reusedIDBody(shape string) func() {
	return func() {
		srv := &script{nOps: 1 << 30}
		stub := wire.New(srv)
		c := newClient(false)
		if err := c.UseStub(stub); err != nil {
			panic(err)
		}
		if err := c.Connect(context.Background()); err != nil {
			panic(err)
		}
		a := ribx.Op(1, D, spb.AFTOperation_ADD, ribx.V4Entry("1.0.0.0/8", 1, "", nil))
		b := ribx.Op(1, D, spb.AFTOperation_ADD, ribx.V4Entry("2.0.0.0/8", 1, "", nil))
		other := ribx.Op(10, D, spb.AFTOperation_ADD, ribx.NHEntry(10, "1.1.1.1"))
		for _, o := range []*spb.AFTOperation{a, b, other} {
			o.ElectionId = &spb.Uint128{Low: 1}
		}
		switch shape {
		case "same-request":
			c.Q(&spb.ModifyRequest{Operation: []*spb.AFTOperation{a, b}})
		case "later-request":
			c.Q(&spb.ModifyRequest{Operation: []*spb.AFTOperation{a}})
			c.Q(&spb.ModifyRequest{Operation: []*spb.AFTOperation{b}})
		case "same-request-after-another":
			c.Q(&spb.ModifyRequest{Operation: []*spb.AFTOperation{other}})
			c.Q(&spb.ModifyRequest{Operation: []*spb.AFTOperation{a, b}})
		}
		c.StartSending()
		err := c.AwaitConverged(context.Background())
		rt.Emit("await-returned", fmt.Sprint(err))
		res, _ := c.Results()
		keys := map[string]int{}
		for _, r := range res {
			if r != nil && r.Details != nil && r.Details.IPv4Prefix != "" {
				keys[r.Details.IPv4Prefix]++
			}
		}
		nerr := 0
		if st, serr := c.Status(); serr == nil && st != nil {
			nerr = len(st.SendErrs) + len(st.ReadErrs)
		}
		rt.Emit("reused-final", [3]any{err == nil, fmt.Sprint(keys), nerr})
		c.Close()
		rt.Quiesce()
	}
}

// stopStartBody: the application toggles StopSending / StartSending while another of its goroutines hands further
// requests to the client: requests queued before sending starts are flushed by StartSending, a concurrent goroutine
// stops sending again and queues more (or queues while the flush is in progress), and a final StartSending flushes
// what is left. Every operation handed over must reach the (well-behaved) server exactly once and be completed
// exactly once. The client has no session parameters or election id of its own here (StartSending would re-send
// them on every call).
func stopStartBody() func() {
	return func() {
		srv := &script{nOps: 1 << 30}
		stub := wire.New(srv)
		c, err := client.New()
		if err != nil {
			panic(err)
		}
		if err := c.UseStub(stub); err != nil {
			panic(err)
		}
		if err := c.Connect(context.Background()); err != nil {
			panic(err)
		}
		shape := rt.Choose(4, 0, "stop-start-shape")
		pre, late, stop := 2, 1, true
		switch shape {
		case 1:
			late = 2
		case 2:
			stop = false
		case 3:
			pre, late = 3, 2
		}
		all := ops(pre + late)
		for _, o := range all {
			o.ElectionId = nil
		}
		rt.Emit("shape", [3]any{pre, late, stop})
		for _, o := range all[:pre] {
			c.Q(&spb.ModifyRequest{Operation: []*spb.AFTOperation{o}})
		}
		done := make(chan struct{})
		rt.Go("application-2", func() {
			if stop {
				c.StopSending()
			}
			for _, o := range all[pre:] {
				c.Q(&spb.ModifyRequest{Operation: []*spb.AFTOperation{o}})
			}
			rt.Close(done)
		})
		c.StartSending()
		rt.Recv(done)
		c.StartSending()
		rt.Emit("handed", len(all))
		err = c.AwaitConverged(context.Background())
		rt.Emit("await-returned", fmt.Sprint(err))
		f := snapshot(c, all, false)
		f.awaitNil = err == nil
		f.awaitErr = fmt.Sprint(err)
		rt.Emit("final", f)
		c.Close()
		rt.Emit("closed", nil)
		rt.Quiesce()
	}
}

func checkStopStart() func(x *rt.Exec) []mc.Fail {
	return func(x *rt.Exec) []mc.Fail {
		var out []mc.Fail
		bad := func(sig, format string, a ...any) {
			out = append(out, mc.Fail{Sig: sig, What: fmt.Sprintf(format, a...)})
		}
		if x.Crash != "" {
			bad("crash/"+firstLine(x.Crash), "%s", x.Crash)
			return out
		}
		n := 0
		shape := ""
		onWire := map[string]int{}
		var wire []string
		var f *final
		for _, e := range x.Events {
			switch e.Label {
			case "shape":
				v := e.Val.([3]any)
				n = v[0].(int) + v[1].(int)
				shape = fmt.Sprintf("%d requests queued before StartSending, %d handed over by a second goroutine (StopSending first: %v)", v[0], v[1], v[2])
			case "srv-recv":
				onWire[e.Val.(string)]++
				wire = append(wire, e.Val.(string))
			case "final":
				ff := e.Val.(final)
				f = &ff
			}
		}
		lostOrDup := false
		for id := 1; id <= n; id++ {
			if k := onWire[fmt.Sprintf("ops[%d]", id)]; k != 1 {
				lostOrDup = true
				bad(fmt.Sprintf("C13/request-on-the-wire-%d-times", k), "%s: the request with operation %d was written to the stream %d times (wire: %v)", shape, id, k, wire)
			}
		}
		if x.Deadlock {
			bad("C13/client-blocked", "%s: blocked: %v", shape, x.Blocked)
			return out
		}
		if x.Livelock {
			if !lostOrDup {
				bad("C13/await-never-returns", "%s: every operation reached the server and was answered but AwaitConverged never returns; blocked: %v", shape, x.Blocked)
			}
			return out
		}
		if f == nil {
			bad("C13/harness-incomplete", "execution ended without a final snapshot")
			return out
		}
		if !f.awaitNil {
			bad("C13/await-failed-against-well-behaved-server", "%s: AwaitConverged returned %s", shape, f.awaitErr)
		}
		if len(f.pending) > 0 {
			bad("C13/converged-with-pending", "%s: pending after AwaitConverged: %v", shape, f.pending)
		}
		for id := uint64(1); id <= uint64(n); id++ {
			if f.terminals[id] != 1 {
				bad(fmt.Sprintf("C13/terminal-results-%d-not-1", f.terminals[id]), "%s: operation %d has %d terminal results in Results(): %v", shape, id, f.terminals[id], f.results)
			}
		}
		for _, d := range f.detailsBad {
			bad("C13/result-details-do-not-match-operation", "%s: %s", shape, d)
		}
		return out
	}
}

// ackBody: a second application goroutine consumes results with Results() / AckResult() while they are still
// arriving. A result leaves the client only by being acknowledged: at the end every operation must have exactly one
// terminal result that was either acknowledged by the application or is still in Results().
func ackBody() func() {
	return func() {
		srv := &script{nOps: 1 << 30}
		stub := wire.New(srv)
		c := newClient(false)
		if err := c.UseStub(stub); err != nil {
			panic(err)
		}
		if err := c.Connect(context.Background()); err != nil {
			panic(err)
		}
		sent := ops(3)
		for _, o := range sent {
			c.Q(&spb.ModifyRequest{Operation: []*spb.AFTOperation{o}})
		}
		var acked []uint64
		done := make(chan struct{})
		rt.Go("application-acker", func() {
			for tries := 0; tries < 8 && len(acked) < 2; tries++ {
				res, err := c.Results()
				if err != nil {
					break
				}
				for _, r := range res {
					if r != nil && r.OperationID != 0 {
						if err := c.AckResult(r); err == nil {
							acked = append(acked, r.OperationID)
						}
						break
					}
				}
				rt.Sleep(time.Millisecond)
			}
			rt.Close(done)
		})
		c.StartSending()
		err := c.AwaitConverged(context.Background())
		rt.Recv(done)
		rt.Emit("await-returned", fmt.Sprint(err))
		f := snapshot(c, sent, false)
		f.awaitNil = err == nil
		f.awaitErr = fmt.Sprint(err)
		for _, id := range acked {
			f.terminals[id]++
		}
		rt.Emit("acked", fmt.Sprint(acked))
		rt.Emit("final", f)
		c.Close()
		rt.Quiesce()
	}
}

func checkAck() func(x *rt.Exec) []mc.Fail {
	return func(x *rt.Exec) []mc.Fail {
		var out []mc.Fail
		switch {
		case x.Crash != "":
			return []mc.Fail{{Sig: "crash/" + firstLine(x.Crash), What: x.Crash}}
		case x.Deadlock:
			return []mc.Fail{{Sig: "C13/client-blocked", What: fmt.Sprintf("acknowledging results while they arrive: blocked: %v", x.Blocked)}}
		case x.Livelock:
			return []mc.Fail{{Sig: "C13/await-never-returns", What: fmt.Sprintf("acknowledging results while they arrive: AwaitConverged never returns; blocked: %v", x.Blocked)}}
		}
		acked := ""
		for _, e := range x.Events {
			switch e.Label {
			case "acked":
				acked = e.Val.(string)
			case "final":
				f := e.Val.(final)
				if !f.awaitNil {
					out = append(out, mc.Fail{Sig: "C13/await-failed-against-well-behaved-server", What: "acknowledging results while they arrive: AwaitConverged returned " + f.awaitErr})
				}
				for id := uint64(1); id <= 3; id++ {
					if n := f.terminals[id]; n != 1 {
						out = append(out, mc.Fail{Sig: fmt.Sprintf("C13/terminal-results-%d-not-1", n), What: fmt.Sprintf("operation %d has %d terminal results counting those the application acknowledged %s and those still in Results() %v: a result that was never acknowledged is gone", id, n, acked, f.results)})
					}
				}
				if len(f.pending) > 0 {
					out = append(out, mc.Fail{Sig: "C13/converged-with-pending", What: fmt.Sprintf("pending after AwaitConverged: %v", f.pending)})
				}
			}
		}
		return out
	}
}

// acrossResetBody: one operation is answered and its result read; after Reset + Connect a DIFFERENT operation is
// handed over under the same id (every session numbers from 1) and the new server stays silent. What the client
// reports must describe the new session only: the operation is pending, nothing is resulted.
func acrossResetBody() func() {
	return func() {
		srv := &script{nOps: 1 << 30, silentLater: true}
		stub := wire.New(srv)
		c := newClient(false)
		if err := c.UseStub(stub); err != nil {
			panic(err)
		}
		if err := c.Connect(context.Background()); err != nil {
			panic(err)
		}
		first := ops(1)
		c.Q(&spb.ModifyRequest{Operation: first})
		c.StartSending()
		err := c.AwaitConverged(context.Background())
		rt.Emit("await-returned", fmt.Sprint(err))
		f1 := snapshot(c, first, false) // (reads Results() / Status())
		rt.Emit("first-session", fmt.Sprintf("pending=%v results=%v", f1.pending, f1.results))
		c.Reset()
		if err := c.Connect(context.Background()); err != nil {
			panic(err)
		}
		second := ribx.Op(1, D, spb.AFTOperation_DELETE, ribx.V4Entry("10.0.0.0/8", 0, "", nil))
		second.ElectionId = &spb.Uint128{Low: 1}
		c.Q(&spb.ModifyRequest{Operation: []*spb.AFTOperation{second}})
		c.StartSending()
		rt.Quiesce()
		f := snapshot(c, []*spb.AFTOperation{second}, false)
		rt.Emit("final", f)
		c.Close()
		rt.Quiesce()
	}
}

func checkAcrossReset() func(x *rt.Exec) []mc.Fail {
	return func(x *rt.Exec) []mc.Fail {
		switch {
		case x.Crash != "":
			return []mc.Fail{{Sig: "crash/" + firstLine(x.Crash), What: x.Crash}}
		case x.Deadlock:
			return []mc.Fail{{Sig: "C13/client-blocked", What: fmt.Sprintf("across Reset: blocked: %v", x.Blocked)}}
		}
		var out []mc.Fail
		for _, e := range x.Events {
			switch e.Label {
			case "first-session":
				if e.Val.(string) != "pending=[] results=[1:RIB]" {
					out = append(out, mc.Fail{Sig: "C13/await-failed-against-well-behaved-server", What: "first session: " + e.Val.(string)})
				}
			case "final":
				f := e.Val.(final)
				if fmt.Sprint(f.pending) != "[election op1 params]" && fmt.Sprint(f.pending) != "[op1]" {
					out = append(out, mc.Fail{Sig: "C13/operation-lost", What: fmt.Sprintf("after Reset + Connect the unanswered operation 1 of the new session is not (only) pending: pending=%v", f.pending)})
				}
				if len(f.results) > 0 || len(f.detailsBad) > 0 {
					out = append(out, mc.Fail{Sig: "C13/result-of-an-earlier-session-reported", What: fmt.Sprintf("after Reset + Connect, before any answer of the new server, the client reports results %v %v: they belong to the operation that had this id in the previous session", f.results, f.detailsBad)})
				}
			}
		}
		return out
	}
}

func checkReusedID(shape string) func(x *rt.Exec) []mc.Fail {
	return func(x *rt.Exec) []mc.Fail {
		switch {
		case x.Crash != "":
			return []mc.Fail{{Sig: "crash/" + firstLine(x.Crash), What: x.Crash}}
		case x.Deadlock:
			return []mc.Fail{{Sig: "C13/client-blocked", What: fmt.Sprintf("%s: blocked: %v", shape, x.Blocked)}}
		}
		for _, e := range x.Events {
			if e.Label != "reused-final" {
				continue
			}
			f := e.Val.([3]any)
			if f[0].(bool) && f[2].(int) == 0 {
				return []mc.Fail{{Sig: "C13/converged-although-an-operation-was-lost/reused-id", What: fmt.Sprintf("%s: two different operations were handed to the client under id 1 and the server answered id 1 once; AwaitConverged returned success with no error recorded; results by prefix: %v (one of the two operations is neither queued, pending nor resulted)", shape, f[1])}}
			}
		}
		return nil
	}
}

func checkAccounting(nOps int, fib bool) func(x *rt.Exec) []mc.Fail {
	return func(x *rt.Exec) []mc.Fail {
		var out []mc.Fail
		bad := func(sig, format string, a ...any) {
			out = append(out, mc.Fail{Sig: sig, What: fmt.Sprintf(format, a...)})
		}
		if x.Crash != "" {
			bad("crash/"+firstLine(x.Crash), "%s", x.Crash)
			return out
		}
		var p *plan
		var f *final
		sentTerminalBeforeReturn := map[uint64]bool{}
		returned := false
		for _, e := range x.Events {
			switch e.Label {
			case "plan":
				pp := e.Val.(plan)
				p = &pp
			case "srv-sent":
				it := e.Val.(item)
				if !returned && terminal(it.st, fib) {
					sentTerminalBeforeReturn[it.id] = true
				}
			case "await-returned":
				returned = true
			case "final":
				ff := e.Val.(final)
				f = &ff
			}
		}
		desc := "?"
		if p != nil {
			desc = p.desc
		}
		if x.Deadlock {
			bad("C13/client-deadlock", "plan %s: deadlock; blocked: %v", desc, x.Blocked)
			return out
		}
		if x.Livelock {
			// AwaitConverged polls forever: expected only when the server withholds a terminal result (or the plan
			// was never played because not all operations reached the server)
			if p != nil && p.stalled == 0 && p.violation == "" {
				bad("C13/await-never-returns", "plan %s: every operation received its terminal result but AwaitConverged never returns; blocked: %v", desc, x.Blocked)
			}
			if p == nil {
				bad("C13/operations-never-sent", "the operations handed to the client never reached the server; blocked: %v", x.Blocked)
			}
			return out
		}
		if f == nil || p == nil {
			bad("C13/harness-incomplete", "execution ended without a final snapshot (plan=%v)", p != nil)
			return out
		}
		switch {
		case p.violation != "":
			if f.awaitNil {
				bad("C13/protocol-violation-not-reported/"+p.violation, "plan %s: the server sent a %s result but AwaitConverged returned success (results %v, pending %v, recv errors %d)", desc, p.violation, f.results, f.pending, f.recvErrs)
			}
		case p.stalled != 0:
			if f.awaitNil {
				bad("C13/converged-while-operation-outstanding", "plan %s: AwaitConverged returned success although operation %d never received its terminal result (results %v)", desc, p.stalled, f.results)
			}
		default:
			if !f.awaitNil {
				bad("C13/await-failed-against-well-behaved-server", "plan %s: AwaitConverged returned %s", desc, f.awaitErr)
			}
		}
		if f.awaitNil {
			if len(f.pending) > 0 {
				bad("C13/converged-with-pending", "plan %s: AwaitConverged returned success with pending %v", desc, f.pending)
			}
			if f.sendErrs+f.recvErrs > 0 {
				bad("C13/converged-with-recorded-errors", "plan %s: success with %d send / %d receive errors recorded", desc, f.sendErrs, f.recvErrs)
			}
			for id := uint64(1); id <= uint64(nOps); id++ {
				if !sentTerminalBeforeReturn[id] {
					bad("C13/converged-before-terminal-result", "plan %s: AwaitConverged returned success before the server had sent a terminal result for operation %d", desc, id)
				}
				if f.terminals[id] != 1 {
					bad(fmt.Sprintf("C13/terminal-results-%d-not-1", f.terminals[id]), "plan %s: operation %d has %d terminal results in Results(): %v", desc, id, f.terminals[id], f.results)
				}
			}
		}
		// the ledger itself: whatever the server did, an operation that was handed over is still pending or has a
		// terminal result - also the operations that were completed in the same response as a protocol violation
		for id := uint64(1); id <= uint64(nOps); id++ {
			pend := false
			for _, pd := range f.pending {
				pend = pend || pd == fmt.Sprintf("op%d", id)
			}
			if !pend && f.terminals[id] == 0 {
				bad("C13/operation-lost", "plan %s: operation %d is neither pending nor represented by a terminal result (pending %v, results %v)", desc, id, f.pending, f.results)
			}
		}
		for id, n := range f.terminals {
			if n > 1 && p.violation != "duplicate-terminal" {
				bad("C13/operation-completed-twice", "plan %s: operation %d has %d terminal results: %v", desc, id, n, f.results)
			}
			for _, pd := range f.pending {
				if pd == fmt.Sprintf("op%d", id) {
					bad("C13/operation-both-pending-and-completed", "plan %s: operation %d is pending and has a terminal result", desc, id)
				}
			}
		}
		for _, d := range f.detailsBad {
			bad("C13/result-details-do-not-match-operation", "plan %s: %s", desc, d)
		}
		for _, b := range x.Blocked {
			if strings.Contains(b, "Connect.func") {
				bad("C14/client-goroutine-left-after-close", "plan %s: after Close returned a client goroutine is still alive: %v", desc, x.Blocked)
			}
		}
		return out
	}
}

func firstLine(s string) string {
	if i := strings.IndexByte(s, '\n'); i >= 0 {
		return s[:i]
	}
	return s
}

func merge(rep *report.Report, name string, res mc.SchedResult, bound int) {
	if res.EngineError != "" {
		rep.EngineError("%s: %s", name, res.EngineError)
	}
	if res.CacheDiff != "" {
		rep.Set("cache_selftest:"+name, res.CacheDiff)
	}
	rep.Add("pruned_at_visited_states", res.Pruned)
	rep.Add("states", res.Execs)
	rep.Add("transitions", res.Steps)
	rep.Add("traces_validated_against_impl", res.Execs)
	rep.Add("evaluations", res.Execs)
	rep.Add("distinct_nontrivial", len(res.Outcomes))
	rep.And("exhaustive", res.Exhaustive)
	rep.Set("scenario:"+name, map[string]any{"executions": res.Execs, "scheduling_steps": res.Steps, "bound_target": bound, "bound_completed": res.BoundCompleted,
		"executions_per_bound": res.ExecsPerBound, "distinct_outcomes": len(res.Outcomes), "max_choice_points": res.MaxChoices})
	for _, f := range res.Fails {
		rep.Violate(f.Sig, f.What, map[string]any{"scenario": name, "schedule": f.History})
	}
}

func outcome(x *rt.Exec) string {
	var sb strings.Builder
	switch {
	case x.Crash != "":
		return "crash"
	case x.Deadlock:
		sb.WriteString("deadlock;")
	case x.Livelock:
		sb.WriteString("livelock;")
	}
	for _, e := range x.Events {
		switch e.Label {
		case "plan":
			sb.WriteString(e.Val.(plan).desc + ";")
		case "await-returned", "fault", "after-reset", "q-returned":
			fmt.Fprintf(&sb, "%s=%v;", e.Label, e.Val)
		case "final":
			f := e.Val.(final)
			fmt.Fprintf(&sb, "pend=%v res=%v;", f.pending, f.results)
		}
	}
	return sb.String()
}

// accountingParts lists the C13 shards.
func accountingParts(tier string) []string {
	if tier == "thorough" {
		return []string{"2-ops/rib-ack/rich", "2-ops/fib-ack/rich", "3-ops/rib-ack", "3-ops/fib-ack", "1-op/fib-ack/rich", "reused-id", "stop-start", "ack-while-receiving", "across-reset", "across-fault-and-reset"}
	}
	return []string{"2-ops/rib-ack", "2-ops/fib-ack", "1-op/fib-ack/rich", "reused-id", "stop-start", "ack-while-receiving", "across-reset", "across-fault-and-reset"}
}

// RunC13 decides C13 (one shard process per configuration).
func RunC13(rep *report.Report, tier string) {
	rep.Shards(accountingParts(tier), 8, nil)
	rep.Set("rule", "one execution per (server reply plan, queue mode, schedule within the deviation bound); reply plans = every per-operation outcome x interleaving x batching into responses, plus unknown-id / duplicate-terminal / withheld-terminal variants; outcomes are distinct (plan, AwaitConverged result, final pending/results) observations")
	rep.Sample(map[string]any{"plan": "[1:RIB 2:RIB][1:FIB][2:FIB]", "queue_mode": "one request before StartSending", "schedule": "default"})
	rep.Sample(map[string]any{"plan": "unknown-id [1:RIB][99:RIB][2:RIB]", "queue_mode": "one request per operation after StartSending"})
}

// ChildC13 runs one configuration.
func ChildC13(rep *report.Report, tier, part string) {
	dl := ribhist.Budget(tier, 80*time.Second, 20*time.Minute)
	if part == "reused-id" {
		bound := 1
		if tier == "thorough" {
			bound = 2
		}
		for _, shape := range []string{"same-request", "later-request", "same-request-after-another"} {
			res := mc.DFS(mc.SchedConfig{Name: part + "/" + shape, Body: reusedIDBody(shape), Check: checkReusedID(shape), Outcome: outcome, Bound: bound, SwitchCost: 1, Deadline: dl})
			merge(rep, "accounting/"+part+"/"+shape, res, bound)
		}
		return
	}
	if part == "across-reset" {
		res := mc.DFS(mc.SchedConfig{Name: part, Body: acrossResetBody(), Check: checkAcrossReset(), Outcome: outcome, Bound: 1, SwitchCost: 1, Deadline: dl})
		merge(rep, "accounting/"+part, res, 1)
		return
	}
	if part == "across-fault-and-reset" {
		// the ledger across a broken session: the stream fails while requests are still buffered behind the one being
		// written, the application resets the client (and hands over a request before / after it connects again):
		// every operation of the broken session is pending or resulted when the failure is reported, and the new
		// session carries and accounts for the new operations only (the C14 scenario, with the C13 oracles)
		for _, fc := range []faultCase{{"send", 3, codes.Unavailable, "reset"}, {"send", 2, codes.Unavailable, "reset+queue-before-connect"}, {"recv", 3, codes.Unavailable, "reset+queue-before-connect"}, {"send+late-recv", 1, codes.Unavailable, "reset"}, {"send+late-recv", 3, codes.Unavailable, "reset"}} {
			res := mc.DFS(mc.SchedConfig{Name: part + "/" + fc.String(), Body: faultBody(fc), Check: checkFault(fc), Outcome: outcome, Bound: 1, SwitchCost: 1, Deadline: dl})
			merge(rep, "accounting/"+part+"/"+fc.String(), res, 1)
		}
		return
	}
	if part == "ack-while-receiving" {
		bound := 2
		if tier == "thorough" {
			bound = 3
		}
		res := mc.DFS(mc.SchedConfig{Name: part, Body: ackBody(), Check: checkAck(), Outcome: outcome, Bound: bound, SwitchCost: 1, Deadline: dl})
		merge(rep, "accounting/"+part, res, bound)
		return
	}
	if part == "stop-start" {
		bound := 2
		if tier == "thorough" {
			bound = 3
		}
		res := mc.DFS(mc.SchedConfig{Name: part, Body: stopStartBody(), Check: checkStopStart(), Outcome: outcome, Bound: bound, SwitchCost: 1, Deadline: dl})
		merge(rep, "accounting/"+part, res, bound)
		return
	}
	n := 2
	switch {
	case strings.HasPrefix(part, "3-ops"):
		n = 3
	case strings.HasPrefix(part, "1-op"):
		n = 1
	}
	fib := strings.Contains(part, "fib-ack")
	rich := strings.Contains(part, "rich")
	bound := 1
	if tier == "thorough" && n < 3 {
		bound = 2
	}
	pl := plans(n, fib, rich)
	rep.Set("reply_plans:"+part, len(pl))
	res := mc.DFS(mc.SchedConfig{Name: part, Body: accountingBody(n, fib, pl), Check: checkAccounting(n, fib), Outcome: outcome, Bound: bound, SwitchCost: 1, Deadline: dl})
	merge(rep, "accounting/"+part, res, bound)
}

// --- C14: faults ------------------------------------------------------------------------------------------------

type faultCase struct {
	side  string // "send" / "recv"
	index int
	code  codes.Code
	then  string // "close" / "reset"
}

func (f faultCase) String() string {
	return fmt.Sprintf("%s-fault at message %d (%s) then %s", f.side, f.index, f.code, f.then)
}

func faultCases(thorough bool) []faultCase {
	var out []faultCase
	cs := []codes.Code{codes.Unavailable, codes.Canceled}
	if thorough {
		cs = append(cs, codes.Internal)
	}
	maxIdx := 4
	if thorough {
		maxIdx = 9
	}
	for _, then := range []string{"close", "reset"} {
		for _, side := range []string{"send", "recv"} {
			for i := 0; i <= maxIdx; i++ {
				for _, c := range cs {
					out = append(out, faultCase{side, i, c, then})
				}
			}
		}
	}
	// the write side fails first; the read side learns of the failure only while / after the application closes or
	// resets the client
	for _, then := range []string{"close", "reset"} {
		for _, i := range []int{1, 3} {
			out = append(out, faultCase{"send+late-recv", i, codes.Unavailable, then})
		}
	}
	// after the fault the application resets the client and points it at ANOTHER server (ReplaceStub)
	for _, side := range []string{"send", "recv"} {
		out = append(out, faultCase{side, 1, codes.Unavailable, "reset+replace-stub"})
	}
	// after the fault and Reset the application hands over a request BEFORE it connects again: like on a client
	// that was never connected, it waits in the send queue and is flushed by StartSending on the new stream
	for _, side := range []string{"send", "recv"} {
		out = append(out, faultCase{side, 1, codes.Unavailable, "reset+queue-before-connect"})
	}
	// the server ENDS the RPC with the OK status once everything was answered (Recv returns io.EOF: no error to
	// record, nothing pending) - the session is over all the same: Close / Reset must collect both goroutines and a
	// later session must work
	for _, then := range []string{"close", "reset"} {
		out = append(out, faultCase{"recv", 2 + burst, codes.OK, then})
	}
	// the read side fails while the write side still accepts (and loses) messages: the receive error is the only
	// report of the failure - also when it arrives before the application has called StartSending
	for _, then := range []string{"close", "reset"} {
		for _, i := range []int{0, 2} {
			out = append(out, faultCase{"recv, sends still accepted", i, codes.Unavailable, then})
		}
	}
	return out
}

const burst = 7

// faultBody is the C14 scenario for one fault case.
func faultBody(fc faultCase) func() {
	return func() {
		srv := &script{}
		stub := wire.New(srv)
		c := newClient(false)
		if err := c.UseStub(stub); err != nil {
			panic(err)
		}
		var ferr error = status.Error(fc.code, "injected stream fault")
		if fc.code == codes.OK {
			ferr = io.EOF
		}
		stub.OnModify = func(st *wire.ModifyStream) {
			if len(stub.Modifies) != 1 {
				return // only the first stream is faulty
			}
			if fc.side == "send" || fc.side == "send+late-recv" {
				st.SendFailAt, st.SendFail, st.SendFailKeepsRecv = fc.index, ferr, fc.side == "send+late-recv"
			} else {
				st.RecvFailAt, st.RecvFail = fc.index, ferr
				st.RecvFailSendsAccepted = fc.side == "recv, sends still accepted"
			}
		}
		if err := c.Connect(context.Background()); err != nil {
			panic(err)
		}
		rt.Emit("fault", fc.String())
		c.StartSending() // params + election id are messages 0 and 1
		sent := ops(burst)
		for _, o := range sent {
			c.Q(&spb.ModifyRequest{Operation: []*spb.AFTOperation{o}})
		}
		rt.Emit("q-returned", burst)
		err := c.AwaitConverged(context.Background())
		rt.Emit("await-returned", fmt.Sprint(err))
		f := snapshot(c, sent, false)
		f.awaitNil, f.awaitErr = err == nil, fmt.Sprint(err)
		rt.Emit("final", f)
		// Done is signalled by the goroutine that exits because of the fault, which may be after the error was
		// recorded: let the client's goroutines run until nothing more can happen, then look.
		rt.Quiesce()
		sel := rt.NewSelect(true)
		d := rt.SelRecv(sel, c.Done())
		_ = d
		rt.Emit("done-signalled", sel.Wait() == 0)
		if fc.side == "send+late-recv" {
			// the read side of the old stream fails whenever this thread gets to run: while Close / Reset wait for
			// the receiver, or - if they do not wait - at any later point of the application's life
			first := stub.Modifies[0]
			rt.Go("late-recv-failure", func() { first.Abort(fc.code) })
		}
		switch fc.then {
		case "close":
			c.Close()
			rt.Emit("closed", nil)
		case "reset", "reset+replace-stub", "reset+queue-before-connect":
			c.Reset()
			if fc.then == "reset+replace-stub" {
				if err := c.ReplaceStub(wire.New(&script{streams: 1, name: "replacement"})); err != nil {
					rt.Emit("reconnect-error", "ReplaceStub: "+err.Error())
					return
				}
			}
			rt.Emit("reset-returned", nil)
			f2 := snapshot(c, nil, false)
			rt.Emit("after-reset", fmt.Sprintf("pending=%v results=%v send-errors=%d recv-errors=%d", f2.pending, f2.results, f2.sendErrs, f2.recvErrs))
			second := []*spb.AFTOperation{}
			if fc.then == "reset+queue-before-connect" {
				o := ribx.Op(99, D, spb.AFTOperation_ADD, ribx.NHEntry(99, "9.9.9.8"))
				o.ElectionId = &spb.Uint128{Low: 1}
				c.Q(&spb.ModifyRequest{Operation: []*spb.AFTOperation{o}})
				second = append(second, o)
			}
			if err := c.Connect(context.Background()); err != nil {
				rt.Emit("reconnect-error", err.Error())
				return
			}
			c.StartSending()
			o := ribx.Op(100, D, spb.AFTOperation_ADD, ribx.NHEntry(100, "9.9.9.9"))
			o.ElectionId = &spb.Uint128{Low: 1}
			c.Q(&spb.ModifyRequest{Operation: []*spb.AFTOperation{o}})
			second = append(second, o)
			err := c.AwaitConverged(context.Background())
			f3 := snapshot(c, second, false)
			rt.Emit("second-exchange", fmt.Sprintf("await=%v pending=%v results=%v recv-errors=%d", err, f3.pending, f3.results, f3.recvErrs))
			c.Close()
			rt.Emit("closed", nil)
		}
		rt.Quiesce()
	}
}

func checkFault(fc faultCase) func(x *rt.Exec) []mc.Fail {
	return func(x *rt.Exec) []mc.Fail {
		var out []mc.Fail
		bad := func(sig, format string, a ...any) {
			out = append(out, mc.Fail{Sig: sig, What: fmt.Sprintf(format, a...)})
		}
		if x.Crash != "" {
			bad("crash/"+firstLine(x.Crash), "%s: %s", fc, x.Crash)
			return out
		}
		ev := map[string]any{}
		var secondStream []string
		nStreams := 0
		lastServer := ""
		for _, e := range x.Events {
			ev[e.Label] = e.Val
			if e.Label == "srv-stream" {
				nStreams = e.Val.(int)
			}
			if e.Label == "srv-name" {
				lastServer, _ = e.Val.(string)
			}
			if e.Label == "srv-recv" {
				if nStreams >= 2 {
					secondStream = append(secondStream, e.Val.(string))
				}
			}
		}
		stage := "queueing the burst"
		switch {
		case ev["closed"] != nil:
			stage = ""
		case ev["reset-returned"] != nil:
			stage = "the second exchange / Close after Reset"
		case ev["final"] != nil:
			stage = fc.then
		case ev["q-returned"] != nil:
			stage = "AwaitConverged"
		}
		if x.Deadlock || x.Livelock {
			kind := "deadlock"
			if x.Livelock {
				kind = "livelock"
			}
			bad(fmt.Sprintf("C14/client-hangs/%s/in-%s", kind, strings.ReplaceAll(stage, " ", "-")), "%s: the client never finishes %s (%s); blocked: %v", fc, stage, kind, x.Blocked)
			return out
		}
		// was the fault reached at all? (a fault index beyond the traffic is a clean run)
		f, _ := ev["final"].(final)
		faultHit := f.sendErrs+f.recvErrs > 0 || !f.awaitNil
		if fc.index < 2+burst {
			if f.awaitNil && f.sendErrs+f.recvErrs == 0 {
				bad("C14/fault-not-reported", "%s: the stream failed but AwaitConverged reported convergence and no error was recorded (pending %v)", fc, f.pending)
			}
		}
		if faultHit {
			// (a receive fault BEYOND the traffic hits after every response has arrived: AwaitConverged may rightly
			// have returned success before the error was recorded - the snapshot is taken after it returned)
			if f.awaitNil && fc.index < 2+burst {
				bad("C14/converged-despite-recorded-error", "%s: errors were recorded (send %d, recv %d) but AwaitConverged returned success", fc, f.sendErrs, f.recvErrs)
			}
			if done, _ := ev["done-signalled"].(bool); !done {
				bad("C14/done-not-signalled", "%s: the stream failed but Done() was not signalled", fc)
			}
		}
		// C13 holds under faults too: every operation of the burst was handed to the client while it was sending, so
		// each is pending or has a terminal result (whether or not its request reached the wire)
		if ev["final"] != nil {
			pend := map[string]bool{}
			for _, p := range f.pending {
				pend[p] = true
			}
			for id := uint64(1); id <= burst; id++ {
				if !pend[fmt.Sprintf("op%d", id)] && f.terminals[id] == 0 {
					bad("C13/operation-lost", "%s: operation %d was handed to the client but is neither pending nor resulted (pending %v, results %v)", fc, id, f.pending, f.results)
					break
				}
			}
		}
		if strings.HasPrefix(fc.then, "reset") {
			if s, _ := ev["after-reset"].(string); s != "pending=[] results=[] send-errors=0 recv-errors=0" {
				bad("C14/stale-state-after-reset", "%s: after Reset the client holds %s", fc, s)
			}
			if fc.then == "reset+replace-stub" && ev["second-exchange"] != nil && lastServer != "replacement" {
				bad("C14/replaced-stub-not-used", "%s: after ReplaceStub + Connect the new stream was opened on the OLD server", fc)
			}
			want := "params,election,ops[100]"
			wantEnd := "await=<nil> pending=[] results=[100:RIB]"
			if fc.then == "reset+queue-before-connect" {
				want, wantEnd = "params,election,ops[99],ops[100]", "await=<nil> pending=[] results=[99:RIB 100:RIB]"
			}
			if got := strings.Join(secondStream, ","); got != want {
				bad("C14/second-stream-carries-stale-messages", "%s: after Reset + Connect the new stream carried %s, want %s", fc, got, want)
			}
			if s, _ := ev["second-exchange"].(string); !strings.HasPrefix(s, wantEnd) {
				bad("C14/second-exchange-not-clean", "%s: the exchange on the new stream ended with %s", fc, s)
			}
		}
		for _, b := range x.Blocked {
			if strings.Contains(b, "Connect.func") {
				bad("C14/client-goroutine-left-behind", "%s: after %s returned a sender / receiver goroutine is still alive: %v", fc, fc.then, x.Blocked)
			}
		}
		return out
	}
}

// RunC14 decides C14: shards of fault cases.
func RunC14(rep *report.Report, tier string) {
	n := len(faultCases(tier == "thorough"))
	var parts []string
	const per = 6
	for i := 0; i < n; i += per {
		parts = append(parts, fmt.Sprintf("%d-%d", i, min(i+per, n)))
	}
	parts = append(parts, "classes/send", "classes/recv")
	rep.Set("fault_cases", n+2*len(statusClasses))
	rep.Shards(parts, 14, nil)
	rep.Set("rule", "one case per (fault side, message index, status code, follow-up) x schedule within the deviation bound, plus every non-OK status class at one fault point per side; a burst of 7 requests is queued while the fault happens; non-trivial outcomes are distinct (fault, AwaitConverged result, final queues, follow-up observations) tuples")
	rep.Sample(map[string]any{"fault": faultCases(false)[7].String(), "schedule": "default + every single deviation"})
}

// ChildC14 runs a range of fault cases.
// statusClasses are all non-OK gRPC status codes.
var statusClasses = []codes.Code{codes.Canceled, codes.Unknown, codes.InvalidArgument, codes.DeadlineExceeded, codes.NotFound, codes.AlreadyExists, codes.PermissionDenied, codes.ResourceExhausted,
	codes.FailedPrecondition, codes.Aborted, codes.OutOfRange, codes.Unimplemented, codes.Internal, codes.Unavailable, codes.DataLoss, codes.Unauthenticated}

func ChildC14(rep *report.Report, tier, part string) {
	if side, ok := strings.CutPrefix(part, "classes/"); ok {
		// every status class at one fault point per side (default schedule; thorough: deviation bound 1), followed by
		// Reset + reconnect + a further exchange
		bound := 0
		if tier == "thorough" {
			bound = 1
		}
		dl := ribhist.Budget(tier, 80*time.Second, 20*time.Minute)
		for _, c := range statusClasses {
			fc := faultCase{side, 2, c, "reset"}
			res := mc.DFS(mc.SchedConfig{Name: fc.String(), Body: faultBody(fc), Check: checkFault(fc), Outcome: outcome, Bound: bound, SwitchCost: 1, Deadline: dl})
			merge(rep, "fault/"+fc.String(), res, bound)
		}
		return
	}
	var lo, hi int
	fmt.Sscanf(part, "%d-%d", &lo, &hi)
	cases := faultCases(tier == "thorough")
	dl := ribhist.Budget(tier, 80*time.Second, 20*time.Minute)
	bound := 1
	if tier == "thorough" {
		bound = 2
	}
	if rp := os.Getenv("VERIF_REPLAY"); rp != "" {
		// debugging aid: VERIF_REPLAY="<case index>:<choice,choice,...>" prints the trace of one execution
		var idx int
		var cs string
		fmt.Sscanf(rp, "%d:%s", &idx, &cs)
		var prefix []int
		for _, f := range strings.Split(cs, ",") {
			var n int
			fmt.Sscan(f, &n)
			prefix = append(prefix, n)
		}
		x := rt.Run(rt.Options{Prefix: prefix, Trace: true, SwitchCost: 1}, faultBody(cases[idx]))
		for _, l := range x.Trace {
			fmt.Println("TRACE", l)
		}
		for _, e := range x.Events {
			fmt.Printf("EVENT T%d %s %v\n", e.Thread, e.Label, e.Val)
		}
		fmt.Println("BLOCKED", x.Blocked, "deadlock", x.Deadlock, "livelock", x.Livelock, x.Aborted)
		for _, f := range checkFault(cases[idx])(x) {
			fmt.Println("FAIL", f.Sig, f.What)
		}
		return
	}
	for _, fc := range cases[lo:hi] {
		res := mc.DFS(mc.SchedConfig{Name: fc.String(), Body: faultBody(fc), Check: checkFault(fc), Outcome: outcome, Bound: bound, SwitchCost: 1, Deadline: dl})
		merge(rep, "fault/"+fc.String(), res, bound)
	}
}
