// Package fluentenum decides C18 by bounded-exhaustive enumeration of fluent-API call programs: (a) every sequence
// of builder calls up to a length bound per entry kind, compared with a field-map model rendered independently to
// protobuf, including immutability of messages obtained earlier; (b) every sequence of client-level calls
// (Add/Replace/Delete with one or two entries, entries with their own election id, UpdateElectionID) observed
// through the real client's pending queue: ids, operation types, election stamps, and immutability of queued
// messages.
package fluentenum

import (
	"context"
	"fmt"
	"io"
	"strings"
	"sync"
	"testing"
	"time"

	"github.com/openconfig/gribigo/client"
	"github.com/openconfig/gribigo/fluent"
	"google.golang.org/grpc"
	"google.golang.org/protobuf/proto"

	"verif/harness/ribx"
	"verif/report"

	aftpb "github.com/openconfig/gribi/v1/proto/gribi_aft"
	enums "github.com/openconfig/gribi/v1/proto/gribi_aft/enums"
	spb "github.com/openconfig/gribi/v1/proto/service"
)

// call is one builder call: it acts on the real builder (through a closure) and on the model.
type call struct {
	name  string
	real  func()
	model func(m *model)
}

// model is the field map: "last write wins, Add* appends".
type model struct {
	kind  string
	ni    string
	elec  *spb.Uint128
	v4    *aftpb.Afts_Ipv4EntryKey
	v6    *aftpb.Afts_Ipv6EntryKey
	mpls  *aftpb.Afts_LabelEntryKey
	nh    *aftpb.Afts_NextHopKey
	nhg   *aftpb.Afts_NextHopGroupKey
	touch bool // next-hop: any setter that creates the inner message was called
}

func (m *model) op() *spb.AFTOperation {
	o := &spb.AFTOperation{NetworkInstance: m.ni, ElectionId: m.elec}
	switch m.kind {
	case "v4":
		o.Entry = &spb.AFTOperation_Ipv4{Ipv4: m.v4}
	case "v6":
		o.Entry = &spb.AFTOperation_Ipv6{Ipv6: m.v6}
	case "mpls":
		o.Entry = &spb.AFTOperation_Mpls{Mpls: m.mpls}
	case "nh":
		o.Entry = &spb.AFTOperation_NextHop{NextHop: m.nh}
	case "nhg":
		o.Entry = &spb.AFTOperation_NextHopGroup{NextHopGroup: m.nhg}
	}
	return o
}

func (m *model) entry() *spb.AFTEntry {
	e := &spb.AFTEntry{NetworkInstance: m.ni}
	switch m.kind {
	case "v4":
		e.Entry = &spb.AFTEntry_Ipv4{Ipv4: m.v4}
	case "v6":
		e.Entry = &spb.AFTEntry_Ipv6{Ipv6: m.v6}
	case "mpls":
		e.Entry = &spb.AFTEntry_Mpls{Mpls: m.mpls}
	case "nh":
		e.Entry = &spb.AFTEntry_NextHop{NextHop: m.nh}
	case "nhg":
		e.Entry = &spb.AFTEntry_NextHopGroup{NextHopGroup: m.nhg}
	}
	return e
}

type builder struct {
	kind  string
	calls []call
	op    func() (*spb.AFTOperation, error)
	entry func() (*spb.AFTEntry, error)
	m     *model
}

var hdr = map[fluent.Header]enums.OpenconfigAftTypesEncapsulationHeaderType{
	fluent.IPinIP: enums.OpenconfigAftTypesEncapsulationHeaderType_OPENCONFIGAFTTYPESENCAPSULATIONHEADERTYPE_IPV4,
	fluent.MPLS:   enums.OpenconfigAftTypesEncapsulationHeaderType_OPENCONFIGAFTTYPESENCAPSULATIONHEADERTYPE_MPLS,
	fluent.UDPV6:  enums.OpenconfigAftTypesEncapsulationHeaderType_OPENCONFIGAFTTYPESENCAPSULATIONHEADERTYPE_UDPV6,
}

func newBuilder(kind string) *builder {
	b := &builder{kind: kind, m: &model{kind: kind}}
	add := func(name string, real func(), mod func(m *model)) {
		b.calls = append(b.calls, call{name: name, real: real, model: mod})
	}
	two := func(f func(i int)) {
		for i := 0; i < 2; i++ {
			f(i)
		}
	}
	strs := []string{"alpha", "beta"}
	switch kind {
	case "v4":
		e := fluent.IPv4Entry()
		b.op, b.entry = e.OpProto, e.EntryProto
		b.m.v4 = &aftpb.Afts_Ipv4EntryKey{Ipv4Entry: &aftpb.Afts_Ipv4Entry{}}
		two(func(i int) {
			p := []string{"10.0.0.0/8", "192.168.0.0/16"}[i]
			add("WithPrefix("+p+")", func() { e.WithPrefix(p) }, func(m *model) { m.v4.Prefix = p })
			add("WithNetworkInstance("+strs[i]+")", func() { e.WithNetworkInstance(strs[i]) }, func(m *model) { m.ni = strs[i] })
			add(fmt.Sprintf("WithNextHopGroup(%d)", i+1), func() { e.WithNextHopGroup(uint64(i + 1)) }, func(m *model) { m.v4.Ipv4Entry.NextHopGroup = ribx.U(uint64(i + 1)) })
			add("WithNextHopGroupNetworkInstance("+strs[i]+")", func() { e.WithNextHopGroupNetworkInstance(strs[i]) }, func(m *model) { m.v4.Ipv4Entry.NextHopGroupNetworkInstance = ribx.S(strs[i]) })
			add(fmt.Sprintf("WithMetadata(%d)", i), func() { e.WithMetadata([]byte{byte(i), 9}) }, func(m *model) { m.v4.Ipv4Entry.EntryMetadata = ribx.B([]byte{byte(i), 9}) })
			add(fmt.Sprintf("WithElectionID(%d,0)", i+1), func() { e.WithElectionID(uint64(i+1), 0) }, func(m *model) { m.elec = &spb.Uint128{Low: uint64(i + 1)} })
		})
	case "v6":
		e := fluent.IPv6Entry()
		b.op, b.entry = e.OpProto, e.EntryProto
		b.m.v6 = &aftpb.Afts_Ipv6EntryKey{Ipv6Entry: &aftpb.Afts_Ipv6Entry{}}
		two(func(i int) {
			p := []string{"2001:db8::/32", "2001:db8:1::/48"}[i]
			add("WithPrefix("+p+")", func() { e.WithPrefix(p) }, func(m *model) { m.v6.Prefix = p })
			add("WithNetworkInstance("+strs[i]+")", func() { e.WithNetworkInstance(strs[i]) }, func(m *model) { m.ni = strs[i] })
			add(fmt.Sprintf("WithNextHopGroup(%d)", i+1), func() { e.WithNextHopGroup(uint64(i + 1)) }, func(m *model) { m.v6.Ipv6Entry.NextHopGroup = ribx.U(uint64(i + 1)) })
			add("WithNextHopGroupNetworkInstance("+strs[i]+")", func() { e.WithNextHopGroupNetworkInstance(strs[i]) }, func(m *model) { m.v6.Ipv6Entry.NextHopGroupNetworkInstance = ribx.S(strs[i]) })
			add(fmt.Sprintf("WithMetadata(%d)", i), func() { e.WithMetadata([]byte{byte(i), 9}) }, func(m *model) { m.v6.Ipv6Entry.EntryMetadata = ribx.B([]byte{byte(i), 9}) })
			add(fmt.Sprintf("WithElectionID(%d,0)", i+1), func() { e.WithElectionID(uint64(i+1), 0) }, func(m *model) { m.elec = &spb.Uint128{Low: uint64(i + 1)} })
		})
	case "mpls":
		e := fluent.LabelEntry()
		b.op, b.entry = e.OpProto, e.EntryProto
		b.m.mpls = &aftpb.Afts_LabelEntryKey{LabelEntry: &aftpb.Afts_LabelEntry{}}
		two(func(i int) {
			add(fmt.Sprintf("WithLabel(%d)", 100+i), func() { e.WithLabel(uint32(100 + i)) }, func(m *model) {
				m.mpls.Label = &aftpb.Afts_LabelEntryKey_LabelUint64{LabelUint64: uint64(100 + i)}
			})
			add("WithNetworkInstance("+strs[i]+")", func() { e.WithNetworkInstance(strs[i]) }, func(m *model) { m.ni = strs[i] })
			add(fmt.Sprintf("WithNextHopGroup(%d)", i+1), func() { e.WithNextHopGroup(uint64(i + 1)) }, func(m *model) { m.mpls.LabelEntry.NextHopGroup = ribx.U(uint64(i + 1)) })
			add("WithNextHopGroupNetworkInstance("+strs[i]+")", func() { e.WithNextHopGroupNetworkInstance(strs[i]) }, func(m *model) { m.mpls.LabelEntry.NextHopGroupNetworkInstance = ribx.S(strs[i]) })
		})
		add("WithPoppedLabelStack()", func() { e.WithPoppedLabelStack() }, func(m *model) { m.mpls.LabelEntry.PoppedMplsLabelStack = nil })
		add("WithPoppedLabelStack(7,8)", func() { e.WithPoppedLabelStack(7, 8) }, func(m *model) {
			m.mpls.LabelEntry.PoppedMplsLabelStack = []*aftpb.Afts_LabelEntry_PoppedMplsLabelStackUnion{{PoppedMplsLabelStackUint64: 7}, {PoppedMplsLabelStackUint64: 8}}
		})
	case "nhg":
		e := fluent.NextHopGroupEntry()
		b.op, b.entry = e.OpProto, e.EntryProto
		b.m.nhg = &aftpb.Afts_NextHopGroupKey{NextHopGroup: &aftpb.Afts_NextHopGroup{}}
		two(func(i int) {
			add(fmt.Sprintf("WithID(%d)", i+1), func() { e.WithID(uint64(i + 1)) }, func(m *model) { m.nhg.Id = uint64(i + 1) })
			add("WithNetworkInstance("+strs[i]+")", func() { e.WithNetworkInstance(strs[i]) }, func(m *model) { m.ni = strs[i] })
			add(fmt.Sprintf("WithBackupNHG(%d)", i+5), func() { e.WithBackupNHG(uint64(i + 5)) }, func(m *model) { m.nhg.NextHopGroup.BackupNextHopGroup = ribx.U(uint64(i + 5)) })
			add(fmt.Sprintf("WithElectionID(%d,0)", i+1), func() { e.WithElectionID(uint64(i+1), 0) }, func(m *model) { m.elec = &spb.Uint128{Low: uint64(i + 1)} })
		})
		for _, nw := range [][2]uint64{{1, 1}, {2, 3}, {1, 5}} {
			nw := nw
			add(fmt.Sprintf("AddNextHop(%d,%d)", nw[0], nw[1]), func() { e.AddNextHop(nw[0], nw[1]) }, func(m *model) {
				m.nhg.NextHopGroup.NextHop = append(m.nhg.NextHopGroup.NextHop, &aftpb.Afts_NextHopGroup_NextHopKey{Index: nw[0], NextHop: &aftpb.Afts_NextHopGroup_NextHop{Weight: ribx.U(nw[1])}})
			})
		}
	case "nh":
		e := fluent.NextHopEntry()
		b.op, b.entry = e.OpProto, e.EntryProto
		b.m.nh = &aftpb.Afts_NextHopKey{}
		inner := func(m *model) *aftpb.Afts_NextHop {
			if m.nh.NextHop == nil {
				m.nh.NextHop = &aftpb.Afts_NextHop{}
			}
			return m.nh.NextHop
		}
		two(func(i int) {
			add(fmt.Sprintf("WithIndex(%d)", i+1), func() { e.WithIndex(uint64(i + 1)) }, func(m *model) { m.nh.Index = uint64(i + 1) })
			add("WithNetworkInstance("+strs[i]+")", func() { e.WithNetworkInstance(strs[i]) }, func(m *model) { m.ni = strs[i] })
			ip := []string{"192.0.2.1", "192.0.2.2"}[i]
			add("WithIPAddress("+ip+")", func() { e.WithIPAddress(ip) }, func(m *model) { inner(m).IpAddress = ribx.S(ip) })
			add("WithInterfaceRef("+strs[i]+")", func() { e.WithInterfaceRef(strs[i]) }, func(m *model) {
				inner(m).InterfaceRef = &aftpb.Afts_NextHop_InterfaceRef{Interface: ribx.S(strs[i])}
			})
			add(fmt.Sprintf("WithSubinterfaceRef(%s,%d)", strs[i], i+3), func() { e.WithSubinterfaceRef(strs[i], uint64(i+3)) }, func(m *model) {
				inner(m).InterfaceRef = &aftpb.Afts_NextHop_InterfaceRef{Interface: ribx.S(strs[i]), Subinterface: ribx.U(uint64(i + 3))}
			})
			mac := []string{"00:00:5e:00:53:01", "00:00:5e:00:53:02"}[i]
			add("WithMacAddress("+mac+")", func() { e.WithMacAddress(mac) }, func(m *model) { inner(m).MacAddress = ribx.S(mac) })
			add(fmt.Sprintf("WithIPinIP(#%d)", i), func() { e.WithIPinIP(ip, "198.51.100.9") }, func(m *model) {
				inner(m).IpInIp = &aftpb.Afts_NextHop_IpInIp{SrcIp: ribx.S(ip), DstIp: ribx.S("198.51.100.9")}
			})
			add("WithNextHopNetworkInstance("+strs[i]+")", func() { e.WithNextHopNetworkInstance(strs[i]) }, func(m *model) { inner(m).NetworkInstance = ribx.S(strs[i]) })
			add(fmt.Sprintf("WithElectionID(%d,0)", i+1), func() { e.WithElectionID(uint64(i+1), 0) }, func(m *model) { m.elec = &spb.Uint128{Low: uint64(i + 1)} })
			h := []fluent.Header{fluent.IPinIP, fluent.MPLS}[i]
			add(fmt.Sprintf("WithDecapsulateHeader(%d)", h), func() { e.WithDecapsulateHeader(h) }, func(m *model) { inner(m).DecapsulateHeader = hdr[h] })
			add(fmt.Sprintf("WithEncapsulateHeader(%d)", h), func() { e.WithEncapsulateHeader(h) }, func(m *model) { inner(m).EncapsulateHeader = hdr[h] })
		})
		add("WithPopTopLabel()", func() { e.WithPopTopLabel() }, func(m *model) { inner(m).PopTopLabel = ribx.Bool(true) })
		add("WithPushedLabelStack(5)", func() { e.WithPushedLabelStack(5) }, func(m *model) {
			inner(m).PushedMplsLabelStack = []*aftpb.Afts_NextHop_PushedMplsLabelStackUnion{{PushedMplsLabelStackUint64: 5}}
		})
		add("WithPushedLabelStack(6,7)", func() { e.WithPushedLabelStack(6, 7) }, func(m *model) {
			inner(m).PushedMplsLabelStack = []*aftpb.Afts_NextHop_PushedMplsLabelStackUnion{{PushedMplsLabelStackUint64: 6}, {PushedMplsLabelStackUint64: 7}}
		})
		add("AddEncapHeader(MPLS 300)", func() { e.AddEncapHeader(fluent.MPLSEncapHeader().WithLabels(300)) }, func(m *model) {
			n := inner(m)
			n.EncapHeader = append(n.EncapHeader, &aftpb.Afts_NextHop_EncapHeaderKey{Index: uint64(len(n.EncapHeader) + 1), EncapHeader: &aftpb.Afts_NextHop_EncapHeader{
				Type: hdr[fluent.MPLS], Mpls: &aftpb.Afts_NextHop_EncapHeader_Mpls{MplsLabelStack: []*aftpb.Afts_NextHop_EncapHeader_Mpls_MplsLabelStackUnion{{MplsLabelStackUint64: 300}}}}})
		})
		add("AddEncapHeader(UDPV6)", func() { e.AddEncapHeader(fluent.UDPV6EncapHeader().WithDstIP("2001:db8::1").WithDstUDPPort(6635)) }, func(m *model) {
			n := inner(m)
			n.EncapHeader = append(n.EncapHeader, &aftpb.Afts_NextHop_EncapHeaderKey{Index: uint64(len(n.EncapHeader) + 1), EncapHeader: &aftpb.Afts_NextHop_EncapHeader{
				Type: hdr[fluent.UDPV6], UdpV6: &aftpb.Afts_NextHop_EncapHeader_UdpV6{DstIp: ribx.S("2001:db8::1"), DstUdpPort: ribx.U(6635)}}})
		})
	}
	return b
}

func det(m proto.Message) string {
	b, err := proto.MarshalOptions{Deterministic: true}.Marshal(m)
	if err != nil {
		return "ERR " + err.Error()
	}
	return string(b)
}

type fail struct{ sig, what string }

// runProgram executes one builder program and checks it.
func runProgram(kind string, prog []int) []fail {
	b := newBuilder(kind)
	var out []fail
	var names []string
	type snapT struct {
		step int
		op   *spb.AFTOperation
		ent  *spb.AFTEntry
		ser  string
	}
	var snaps []snapT
	for step, ci := range prog {
		c := b.calls[ci]
		names = append(names, c.name)
		c.real()
		c.model(b.m)
		op, err1 := b.op()
		ent, err2 := b.entry()
		if err1 != nil || err2 != nil {
			out = append(out, fail{"C18/builder-error/" + kind, fmt.Sprintf("%s %v: OpProto/EntryProto failed: %v %v", kind, names, err1, err2)})
			return out
		}
		wantOp, wantEnt := b.m.op(), b.m.entry()
		if !proto.Equal(op, wantOp) {
			out = append(out, fail{fmt.Sprintf("C18/operation-differs-from-builder-calls/%s/after-%s", kind, strings.SplitN(c.name, "(", 2)[0]), fmt.Sprintf("%s built with %v: OpProto() = {%s}, the calls say {%s}", kind, names, ribx.Text(op), ribx.Text(wantOp))})
		}
		if !proto.Equal(ent, wantEnt) {
			out = append(out, fail{fmt.Sprintf("C18/entry-differs-from-builder-calls/%s/after-%s", kind, strings.SplitN(c.name, "(", 2)[0]), fmt.Sprintf("%s built with %v: EntryProto() = {%s}, the calls say {%s}", kind, names, ribx.Text(ent), ribx.Text(wantEnt))})
		}
		snaps = append(snaps, snapT{step, op, ent, det(op) + "|" + det(ent)})
	}
	for _, s := range snaps {
		if now := det(s.op) + "|" + det(s.ent); now != s.ser {
			out = append(out, fail{"C18/message-obtained-earlier-was-altered/" + kind, fmt.Sprintf("%s built with %v: the messages obtained after call %d (%s) were changed by later builder calls", kind, names, s.step+1, names[s.step])})
			break
		}
	}
	return out
}

// --- client level ---------------------------------------------------------------------------------------------

type nullStub struct{}

func (nullStub) Modify(context.Context, ...grpc.CallOption) (grpc.BidiStreamingClient[spb.ModifyRequest, spb.ModifyResponse], error) {
	return nil, fmt.Errorf("not connected")
}
func (nullStub) Get(context.Context, *spb.GetRequest, ...grpc.CallOption) (grpc.ServerStreamingClient[spb.GetResponse], error) {
	return nil, fmt.Errorf("not connected")
}
func (nullStub) Flush(context.Context, *spb.FlushRequest, ...grpc.CallOption) (*spb.FlushResponse, error) {
	return nil, fmt.Errorf("not connected")
}

// recStub records what reaches the wire: every ModifyRequest the client's sender writes to the Modify stream, as
// serialised at that moment. The stream never answers; it ends when the client half-closes it.
type recStub struct {
	nullStub
	mu   sync.Mutex
	reqs []*spb.ModifyRequest
}

type recStream struct {
	grpc.ClientStream
	s    *recStub
	done chan struct{}
	once sync.Once
}

func (r *recStub) Modify(context.Context, ...grpc.CallOption) (grpc.BidiStreamingClient[spb.ModifyRequest, spb.ModifyResponse], error) {
	return &recStream{s: r, done: make(chan struct{})}, nil
}
func (st *recStream) Send(m *spb.ModifyRequest) error {
	st.s.mu.Lock()
	st.s.reqs = append(st.s.reqs, proto.Clone(m).(*spb.ModifyRequest))
	st.s.mu.Unlock()
	return nil
}
func (st *recStream) Recv() (*spb.ModifyResponse, error) { <-st.done; return nil, io.EOF }
func (st *recStream) CloseSend() error                   { st.once.Do(func() { close(st.done) }); return nil }
func (st *recStream) Context() context.Context           { return context.Background() }
func (r *recStub) ops() []*spb.AFTOperation {
	r.mu.Lock()
	defer r.mu.Unlock()
	var out []*spb.AFTOperation
	for _, m := range r.reqs {
		out = append(out, m.GetOperation()...)
	}
	return out
}

type tb struct {
	testing.TB
	msg string
}

func (t *tb) Helper()                   {}
func (t *tb) Fatalf(f string, a ...any) { t.msg = fmt.Sprintf(f, a...); panic(t) }
func (t *tb) Logf(string, ...any)       {}

// modifier is the chainable wrapper that GRIBIClient.Modify() returns (its type is unexported).
type modifier[M any] interface {
	AddEntry(testing.TB, ...fluent.GRIBIEntry) M
	ReplaceEntry(testing.TB, ...fluent.GRIBIEntry) M
	DeleteEntry(testing.TB, ...fluent.GRIBIEntry) M
	UpdateElectionID(testing.TB, uint64, uint64) M
}

type cstep[M modifier[M]] struct {
	name string
	// do performs the call on the wrapper it is given and returns the wrapper the call returned (for chaining) and
	// the operations the model expects to have been queued (type, own election id)
	do func(m M, t testing.TB) (M, []expOp)
	// elec, if non-nil, is the election id set by this step
	elec *spb.Uint128
	// onClient: a call on the client itself instead of on the Modify() wrapper (queues nothing)
	onClient func(c *fluent.GRIBIClient)
}

type expOp struct {
	typ spb.AFTOperation_Operation
	own *spb.Uint128
	key uint64
}

func entryNH(i uint64) fluent.GRIBIEntry {
	return fluent.NextHopEntry().WithNetworkInstance("DEFAULT").WithIndex(i).WithIPAddress("192.0.2.1")
}

func clientSteps[M modifier[M]]() []cstep[M] {
	return []cstep[M]{
		{name: "AddEntry(nh1)", do: func(m M, t testing.TB) (M, []expOp) {
			m = m.AddEntry(t, entryNH(1))
			return m, []expOp{{spb.AFTOperation_ADD, nil, 1}}
		}},
		{name: "ReplaceEntry(nh2)", do: func(m M, t testing.TB) (M, []expOp) {
			m = m.ReplaceEntry(t, entryNH(2))
			return m, []expOp{{spb.AFTOperation_REPLACE, nil, 2}}
		}},
		{name: "DeleteEntry(nh3)", do: func(m M, t testing.TB) (M, []expOp) {
			m = m.DeleteEntry(t, entryNH(3))
			return m, []expOp{{spb.AFTOperation_DELETE, nil, 3}}
		}},
		{name: "AddEntry(nh4, nh5)", do: func(m M, t testing.TB) (M, []expOp) {
			m = m.AddEntry(t, entryNH(4), entryNH(5))
			return m, []expOp{{spb.AFTOperation_ADD, nil, 4}, {spb.AFTOperation_ADD, nil, 5}}
		}},
		{name: "AddEntry(nh6.WithElectionID(77,0))", do: func(m M, t testing.TB) (M, []expOp) {
			m = m.AddEntry(t, fluent.NextHopEntry().WithNetworkInstance("DEFAULT").WithIndex(6).WithElectionID(77, 0))
			return m, []expOp{{spb.AFTOperation_ADD, &spb.Uint128{Low: 77}, 6}}
		}},
		// one call with several entries of which one names its own election id (before / between plain ones)
		{name: "AddEntry(nh7.WithElectionID(55,0), nh8)", do: func(m M, t testing.TB) (M, []expOp) {
			m = m.AddEntry(t, fluent.NextHopEntry().WithNetworkInstance("DEFAULT").WithIndex(7).WithElectionID(55, 0), entryNH(8))
			return m, []expOp{{spb.AFTOperation_ADD, &spb.Uint128{Low: 55}, 7}, {spb.AFTOperation_ADD, nil, 8}}
		}},
		{name: "ReplaceEntry(nh9, nh10.WithElectionID(66,1), nh11)", do: func(m M, t testing.TB) (M, []expOp) {
			m = m.ReplaceEntry(t, entryNH(9), fluent.NextHopEntry().WithNetworkInstance("DEFAULT").WithIndex(10).WithElectionID(66, 1), entryNH(11))
			return m, []expOp{{spb.AFTOperation_REPLACE, nil, 9}, {spb.AFTOperation_REPLACE, &spb.Uint128{Low: 66, High: 1}, 10}, {spb.AFTOperation_REPLACE, nil, 11}}
		}},
		{name: "UpdateElectionID(20,0)", elec: &spb.Uint128{Low: 20}, do: func(m M, t testing.TB) (M, []expOp) {
			m = m.UpdateElectionID(t, 20, 0)
			return m, nil
		}},
		{name: "UpdateElectionID(30,1)", elec: &spb.Uint128{Low: 30, High: 1}, do: func(m M, t testing.TB) (M, []expOp) {
			m = m.UpdateElectionID(t, 30, 1)
			return m, nil
		}},
		// another request builder of the same client is used in between (built, not sent): a Flush that names its
		// own election id. It is not one of the calls that set the client's id: later operations keep their stamp.
		{name: "Flush().WithElectionID(88,0).WithAllNetworkInstances() [built only]", onClient: func(c *fluent.GRIBIClient) {
			_ = c.Flush().WithElectionID(88, 0).WithAllNetworkInstances()
		}},
	}
}

func countSteps[M modifier[M]](func(*fluent.GRIBIClient) M) int { return len(clientSteps[M]()) }

func pendingOps(c *fluent.GRIBIClient, t testing.TB) []*spb.AFTOperation {
	var out []*spb.AFTOperation
	for _, p := range c.Status(t).PendingTransactions {
		if po, ok := p.(*client.PendingOp); ok {
			out = append(out, po.Op)
		}
	}
	return out
}

// runClientProgram runs one program. mk yields the wrapper (c.Modify()); mode 0: a fresh wrapper for every call (what
// the project's own tests do); mode 1: ONE wrapper obtained before the first call and used for all of them;
// mode 2: chained - every call is made on the wrapper the previous call returned.
func runClientProgram[M modifier[M]](elected bool, mode int, prog []int, mk func(c *fluent.GRIBIClient) M) (fs []fail) {
	steps := clientSteps[M]()
	var names []string
	for _, i := range prog {
		names = append(names, steps[i].name)
	}
	t := &tb{}
	defer func() {
		if r := recover(); r != nil {
			if tt, ok := r.(*tb); ok {
				fs = append(fs, fail{"C18/fluent-call-failed", fmt.Sprintf("%v: %s", names, tt.msg)})
				return
			}
			fs = append(fs, fail{"C18/fluent-call-panicked", fmt.Sprintf("%v: %v", names, r)})
		}
	}()
	c := fluent.NewClient()
	initial := &spb.Uint128{Low: 10}
	rec := &recStub{}
	if elected {
		c.Connection().WithStub(rec).WithRedundancyMode(fluent.ElectedPrimaryClient).WithInitialElectionID(10, 0).WithPersistence()
	} else {
		c.Connection().WithStub(rec).WithRedundancyMode(fluent.AllPrimaryClients)
	}
	c.Start(context.Background(), t)
	cur := initial
	var want []expOp
	var wantStamp []*spb.Uint128
	var frozen []string // serialised form of each queued operation right after it was queued
	held := mk(c)
	for si, i := range prog {
		m := held
		if mode == 0 {
			m = mk(c)
		}
		var ret M
		var exp []expOp
		if steps[i].onClient != nil {
			steps[i].onClient(c)
			ret = m
		} else {
			ret, exp = steps[i].do(m, t)
		}
		if mode == 2 {
			held = ret
		}
		if steps[i].elec != nil {
			cur = steps[i].elec
		}
		for _, e := range exp {
			want = append(want, e)
			switch {
			case e.own != nil:
				wantStamp = append(wantStamp, e.own)
			case elected:
				wantStamp = append(wantStamp, proto.Clone(cur).(*spb.Uint128))
			default:
				wantStamp = append(wantStamp, nil)
			}
		}
		got := pendingOps(c, t)
		if len(got) != len(want) {
			fs = append(fs, fail{"C18/queued-operation-count", fmt.Sprintf("%v: after step %d the client holds %d operations, %d were handed to it", names, si+1, len(got), len(want))})
			return fs
		}
		for k := len(frozen); k < len(got); k++ {
			frozen = append(frozen, det(got[k]))
		}
		for k := range frozen {
			if det(got[k]) != frozen[k] {
				fs = append(fs, fail{"C18/queued-operation-altered-by-later-call/after-" + strings.SplitN(steps[i].name, "(", 2)[0], fmt.Sprintf("%v: operation %d was changed by step %d (%s): now {%s}", names, k+1, si+1, steps[i].name, ribx.Text(got[k]))})
				return fs
			}
		}
	}
	// what reaches the wire: the requests were queued while the client was not sending; StartSending flushes them to
	// the stream, where every operation must arrive as it was when it was queued
	if len(want) > 0 {
		c.StartSending(context.Background(), t)
		var sent []*spb.AFTOperation
		for i := 0; i < 60000; i++ { // (a safety net: the flush takes microseconds)
			if sent = rec.ops(); len(sent) >= len(want) {
				break
			}
			time.Sleep(time.Millisecond)
		}
		c.Stop(t)
		if len(sent) != len(want) {
			fs = append(fs, fail{"C18/operations-on-the-wire-count", fmt.Sprintf("%v: %d operations were queued, %d reached the Modify stream", names, len(want), len(sent))})
			return fs
		}
		for k := range sent {
			if det(sent[k]) != frozen[k] {
				fs = append(fs, fail{"C18/operation-on-the-wire-differs-from-the-one-queued", fmt.Sprintf("%v: operation %d reached the stream as {%s}, which is not what was queued", names, k+1, ribx.Text(sent[k]))})
				return fs
			}
		}
	}
	got := pendingOps(c, t)
	for k, op := range got {
		if op.GetId() != uint64(k+1) {
			fs = append(fs, fail{"C18/operation-ids-not-increasing-from-1", fmt.Sprintf("%v: operation %d has id %d", names, k+1, op.GetId())})
		}
		if op.GetOp() != want[k].typ {
			fs = append(fs, fail{"C18/wrong-operation-type", fmt.Sprintf("%v: operation %d has type %v, requested %v", names, k+1, op.GetOp(), want[k].typ)})
		}
		if op.GetNextHop().GetIndex() != want[k].key {
			fs = append(fs, fail{"C18/wrong-entry", fmt.Sprintf("%v: operation %d carries next-hop %d, want %d", names, k+1, op.GetNextHop().GetIndex(), want[k].key)})
		}
		if !proto.Equal(op.GetElectionId(), wantStamp[k]) || (op.GetElectionId() == nil) != (wantStamp[k] == nil) {
			fs = append(fs, fail{"C18/wrong-election-stamp", fmt.Sprintf("%v: operation %d is stamped %v, want %v (the id most recently set when it was queued, unless the entry has its own)", names, k+1, op.GetElectionId(), wantStamp[k])})
		}
	}
	return fs
}

// Run decides C18.
func Run(rep *report.Report, tier string) {
	guardRep = rep
	maxLen, maxClient := 4, 5
	if tier == "thorough" {
		maxLen, maxClient = 5, 6
	}
	var mu sync.Mutex
	evals := 0
	perKind := map[string]int{}
	for _, kind := range []string{"v4", "v6", "mpls", "nhg", "nh"} {
		n := len(newBuilder(kind).calls)
		ml := maxLen
		if kind == "nh" {
			ml = maxLen - 1 // 28 calls: one shorter than the other kinds
		}
		var progs [][]int
		var gen func(cur []int)
		gen = func(cur []int) {
			if len(cur) > 0 {
				progs = append(progs, append([]int{}, cur...))
			}
			if len(cur) == ml {
				return
			}
			for i := 0; i < n; i++ {
				gen(append(cur, i))
			}
		}
		gen(nil)
		perKind[kind] = len(progs)
		idx := make([]int, len(progs))
		for i := range idx {
			idx[i] = i
		}
		par(idx, func(i int) {
			fs := runProgram(kind, progs[i])
			mu.Lock()
			evals++
			mu.Unlock()
			for _, f := range fs {
				rep.Violate(f.sig, f.what, map[string]any{"kind": kind, "program": progs[i]})
			}
		})
	}
	rep.Set("builder_programs", perKind)
	// client level
	ns := countSteps((*fluent.GRIBIClient).Modify)
	var cprogs [][]int
	var gen func(cur []int)
	gen = func(cur []int) {
		if len(cur) > 0 {
			cprogs = append(cprogs, append([]int{}, cur...))
		}
		if len(cur) == maxClient {
			return
		}
		for i := 0; i < ns; i++ {
			gen(append(cur, i))
		}
	}
	gen(nil)
	modes := []string{"a fresh Modify() wrapper per call", "one Modify() wrapper held for all calls", "chained calls on the returned wrapper"}
	for _, elected := range []bool{true, false} {
		for mode := range modes {
			idx := make([]int, len(cprogs))
			for i := range idx {
				idx[i] = i
			}
			par(idx, func(i int) {
				fs := runClientProgram(elected, mode, cprogs[i], (*fluent.GRIBIClient).Modify)
				mu.Lock()
				evals++
				mu.Unlock()
				for _, f := range fs {
					rep.Violate(f.sig, f.what, map[string]any{"elected_primary": elected, "program": cprogs[i], "wrapper": modes[mode]})
				}
			})
		}
	}
	rep.Set("client_programs", 2*len(modes)*len(cprogs))
	rep.Set("wrapper_modes", modes)
	rep.Set("evaluations", evals)
	rep.Set("distinct_nontrivial", evals)
	rep.Set("states", evals)
	rep.Set("transitions", evals)
	rep.Set("traces_validated_against_impl", evals)
	rep.Set("exhaustive", true)
	rep.Set("rule", "one case per builder-call sequence (every sequence up to the length bound over every With*/Add* method with 2-value argument domains) and per client-call sequence; all distinct by construction")
	rep.Sample(map[string]any{"kind": "nh", "program": []string{"WithInterfaceRef(alpha)", "WithSubinterfaceRef(beta,4)", "AddEncapHeader(MPLS 300)"}})
	rep.Sample(map[string]any{"client": "elected primary, initial id 10", "program": []string{"AddEntry(nh1)", "UpdateElectionID(20,0)", "AddEntry(nh4, nh5)", "AddEntry(nh6.WithElectionID(77,0))"}})
}

// guardRep receives a violation when a case panics (see report.Guard).
var guardRep *report.Report

func par(items []int, f func(int)) {
	var wg sync.WaitGroup
	ch := make(chan int)
	for w := 0; w < 16; w++ {
		wg.Add(1)
		go func() {
			defer wg.Done()
			for i := range ch {
				guardRep.Guard(fmt.Sprintf("case %d", i), map[string]any{"case_index": i}, func() { f(i) })
			}
		}()
	}
	for _, i := range items {
		ch <- i
	}
	close(ch)
	wg.Wait()
}
