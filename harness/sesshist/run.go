package sesshist

import (
	"fmt"
	"time"

	"verif/harness/ribhist"
	"verif/mc"
	"verif/report"
)

func search(rep *report.Report, label string, o *Options, depth int, dl time.Time) {
	res := mc.BFS(mc.Config{Letters: Names(o.Letters), New: New(o), MaxDepth: depth, Deadline: dl})
	ribhist.Merge(rep, label, res, depth)
}

// RunC04 decides C04 at the handler tier.
func RunC04(rep *report.Report, tier string) {
	ck := ribhist.NewClock(tier, 100*time.Second, 20*time.Minute, 2)
	ids := []ID{{0, 1}, {0, 2}, {1, 1}, {2, 1}}
	abs := []ID{{0, 1}, {1, 1}, {2, 1}}
	// (the chain nh1 <- nhg1 <- v4 so that a forward reference held for one session can actually be resolved by
	// another session's operations: a superseded session's held operation must never take effect)
	entries := []string{"ADD nh1", "DELETE nh1", "ADD v4->1", "ADD nhg1{1}"}
	n, depth := 2, 5
	if tier == "thorough" {
		n, depth = 3, 8 // (as deep as the budget allows: the search reports the depth it completed)
		ids = Lattice[1:]
		abs = append(abs, ID{1, 2}, ID{0, ^uint64(0)})
	}
	ls := MakeLetters(n, ids, []stamp{stNil, stOwn, stCur, stAbs}, abs, entries, nil)
	ls = append(ls, MixedLetters(n, ID{0, 1})...)
	rep.Set("alphabet", Names(ls))
	for _, nofwd := range []bool{false, true} {
		o := &Options{Letters: ls, Sessions: n, NoFwdRefs: nofwd, Checks: Checks{Primary: true, Election: true}}
		search(rep, fmt.Sprintf("handlers/%d-sessions/forward-refs-%v", n, !nofwd), o, depth, ck.Next())
	}
	// From states in which the primary holds an operation (a forward reference): whatever the other session does -
	// take over with a higher or an EQUAL id, program the missing references itself - the superseded session's held
	// operation must never take effect.
	idx := func(name string) int {
		for i, l := range ls {
			if l.Name == name {
				return i
			}
		}
		panic("sesshist: no letter " + name)
	}
	d := 3
	if tier == "thorough" {
		d = 5
	}
	for label, init := range map[string][]string{
		"primary-holds-an-operation":          {"open s0", "open s1", "announce s0 (0,1)", "operate s0 [ADD v4->1] stamp=own"},
		"primary-holds-an-operation/other-id": {"open s0", "open s1", "announce s1 (0,1)", "announce s0 (0,2)", "operate s0 [ADD v4->1] stamp=own"},
	} {
		var root []int
		for _, nm := range init {
			root = append(root, idx(nm))
		}
		o := &Options{Letters: ls, Sessions: n, Checks: Checks{Primary: true, Election: true}}
		res := mc.BFS(mc.Config{Letters: Names(ls), New: New(o), MaxDepth: len(root) + d, Root: root, Deadline: ribhist.Budget(tier, 40*time.Second, 10*time.Minute)})
		ribhist.Merge(rep, fmt.Sprintf("handlers/%d-sessions/from-%s", n, label), res, len(root)+d)
	}
}

// RunC05Hist is the history half of C05.
func RunC05Hist(rep *report.Report, tier string, dl time.Time) {
	n, depth := 2, 6
	ids := Lattice
	if tier == "thorough" {
		n, depth = 3, 8 // (as deep as the budget allows: the search reports the depth it completed)
		ids = append(append([]ID{}, Lattice...), Boundary...)
	}
	ls := append(MakeLetters(n, ids, []stamp{stOwn}, nil, []string{"ADD nh1"}, nil), FlushLetters(ids)...)
	o := &Options{Letters: ls, Sessions: n, Checks: Checks{Election: true, Primary: true}}
	search(rep, fmt.Sprintf("announcement-histories/%d-sessions", n), o, depth, dl)
	// all ordered pairs (and triples in thorough) of ids over the word lattice incl. boundaries, announced by
	// different sessions: the decision table of isNewMaster through runElection.
	all := append(append([]ID{}, Lattice...), Boundary...)
	ls2 := MakeLetters(3, all, nil, nil, nil, nil)
	seq := 3
	if tier == "thorough" {
		seq = 4
	}
	o2 := &Options{Letters: ls2, Sessions: 3, Checks: Checks{Election: true}}
	// sessions are opened by a fixed prefix; then every sequence of announcements of length seq
	open := []int{}
	for i, l := range ls2 {
		if l.K == kOpen {
			open = append(open, i)
		}
	}
	res := mc.BFS(mc.Config{Letters: Names(ls2), New: New(o2), MaxDepth: len(open) + seq, Deadline: dl, Enabled: func(h []int, l int) bool {
		if len(h) < len(open) {
			return l == open[len(h)]
		}
		return ls2[l].K == kAnnounce
	}})
	ribhist.Merge(rep, fmt.Sprintf("id-lattice/all-announcement-sequences-of-length-%d", seq), res, len(open)+seq)
}

// RunC06A is tier A of C06.
func RunC06A(rep *report.Report, tier string, dl time.Time) {
	n, depth := 2, 5
	if tier == "thorough" {
		depth = 7
	}
	entries := []string{"ADD nh1", "ADD v4->1", "ADD nhg1{1}", "REPLACE v4->2", "DELETE v4", "DELETE nhg1", "ADD nh2 @\"\"", "ADD nh2 @NOPE", "ADD v4@V->1@D"}
	batches := [][]string{{"ADD v4->1", "ADD nhg1{1}", "ADD nh1"}, {"ADD nh2 @\"\"", "ADD nh1"}, {"ADD nhg2{2}", "ADD nh2"}, {"ADD v6@V->1@D", "ADD nh1", "ADD nhg1{1}"}}
	ids := []ID{{0, 1}, {0, 2}}
	ls := MakeLetters(n, ids, []stamp{stOwn}, nil, entries, batches)
	rep.Set("alphabet", Names(ls))
	for _, fib := range []bool{false, true} {
		o := &Options{Letters: ls, Sessions: n, FIBAck: fib, Checks: Checks{Answers: true}}
		search(rep, fmt.Sprintf("doModify/%d-sessions/fib-ack-%v", n, fib), o, depth, dl)
	}
}

// RunC05 and RunC06 are extended by the schedule-exploration tiers in their own packages; at this tier:
func RunC05(rep *report.Report, tier string) {
	RunC05Hist(rep, tier, ribhist.Budget(tier, 100*time.Second, 20*time.Minute))
}
func RunC06(rep *report.Report, tier string) {
	RunC06A(rep, tier, ribhist.Budget(tier, 100*time.Second, 20*time.Minute))
}

// RunC01Server is the server tier of C01: one primary session drives the real doModify (translation of the RIB's
// verdicts into results included) from a state with a chain installed and a REPLACE held; the installed state must
// equal the fold of the RIB_PROGRAMMED results after every step.
func RunC01Server(rep *report.Report, tier string) { runServerTier(rep, tier, true) }

// RunServerTierLite is the same search from the richer start state in RIB-ack mode only (used by the checks whose
// property is decided at the RIB tier, so that the server's translation of RIB verdicts is in their scope too).
func RunServerTierLite(rep *report.Report, tier string) { runServerTier(rep, tier, false) }

func runServerTier(rep *report.Report, tier string, full bool) {
	entries := []string{"ADD nh1", "DELETE nh1", "ADD v4->1", "ADD nhg1{1}", "DELETE nhg1", "REPLACE v4->2", "DELETE v4", "ADD nhg2{2}", "ADD nh2", "ADD v4@V->1@D", "ADD v6@V->1@D"}
	ls := MakeLetters(1, []ID{{0, 1}}, []stamp{stOwn}, nil, entries, [][]string{{"ADD nhg2{2}", "ADD nh2"}, {"ADD v6@V->1@D", "ADD nh1", "ADD nhg1{1}"}})
	idx := func(name string) int {
		for i, l := range ls {
			if l.Name == name {
				return i
			}
		}
		panic("sesshist: no letter " + name)
	}
	d := 4
	if tier == "thorough" {
		d = 6
	}
	for _, fib := range []bool{false, true} {
		if fib && !full {
			continue
		}
		for label, init := range map[string][]string{
			"primary-established":              {"open s0", "announce s0 (0,1)"},
			"chain-installed-and-replace-held": {"open s0", "announce s0 (0,1)", "operate s0 [ADD nh1] stamp=own", "operate s0 [ADD nhg1{1}] stamp=own", "operate s0 [ADD v4->1] stamp=own", "operate s0 [REPLACE v4->2] stamp=own"},
		} {
			if !full && label == "primary-established" {
				continue
			}
			var root []int
			for _, n := range init {
				root = append(root, idx(n))
			}
			o := &Options{Letters: ls, Sessions: 1, FIBAck: fib, Checks: Checks{Answers: true}}
			res := mc.BFS(mc.Config{Letters: Names(ls), New: New(o), MaxDepth: len(root) + d, Root: root, Deadline: ribhist.Budget(tier, 40*time.Second, 10*time.Minute)})
			ribhist.Merge(rep, fmt.Sprintf("server/one-primary/from-%s/fib-ack-%v", label, fib), res, len(root)+d)
		}
	}
}
