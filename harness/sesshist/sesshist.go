// Package sesshist is the history-BFS harness over a real server.Server driven one protocol step at a time
// through the verif hook wrappers (newClient / checkParams / updateParams / runElection / doModify /
// deleteClient): connect, announce, operate and disconnect steps of up to three sessions over a lattice of
// 128-bit election ids. It serves C04, the history half of C05 and tier A of C06.
package sesshist

import (
	"context"
	"fmt"
	"sort"
	"strings"

	"github.com/openconfig/gribigo/server"
	"google.golang.org/grpc/status"
	"google.golang.org/protobuf/proto"

	"verif/harness/ribx"
	"verif/mc"

	spb "github.com/openconfig/gribi/v1/proto/service"
)

const (
	D = "DEFAULT"
	V = "VRF"
)

type kind int

const (
	kOpen kind = iota
	kClose
	kAnnounce
	kOperate
	kFlush // a Flush RPC of the (empty) second network instance: election id l.ID, or override when Override is set
)

type stamp int

const (
	stNil stamp = iota // no election id on the operation
	stOwn              // the id this session announced last
	stCur              // the highest id announced by anybody so far
	stAbs              // a fixed id
)

// ID is a 128-bit election id.
type ID struct{ Hi, Lo uint64 }

func (a ID) Cmp(b ID) int {
	switch {
	case a.Hi != b.Hi:
		if a.Hi < b.Hi {
			return -1
		}
		return 1
	case a.Lo != b.Lo:
		if a.Lo < b.Lo {
			return -1
		}
		return 1
	}
	return 0
}
func (a ID) Proto() *spb.Uint128 { return &spb.Uint128{High: a.Hi, Low: a.Lo} }
func (a ID) String() string      { return fmt.Sprintf("(%d,%d)", a.Hi, a.Lo) }
func fromProto(p *spb.Uint128) *ID {
	if p == nil {
		return nil
	}
	return &ID{p.High, p.Low}
}

// Letter is one protocol step.
type Letter struct {
	Name  string
	K     kind
	S     int
	ID    ID
	// Override: kFlush only
	Override bool
	St    stamp
	Entry int   // index into Entries
	Batch []int // operate: several entries in one request (overrides Entry)
	// Other: the last operation of the batch carries this stamp instead of St (a request that mixes a correctly
	// stamped operation with a badly stamped one); OtherFirst puts that operation first instead.
	Other      *stamp
	OtherID    ID
	OtherFirst bool
}

// EntryT is an operation template.
type EntryT struct {
	Name string
	NI   string
	Op   spb.AFTOperation_Operation
	E    proto.Message
	// Bad marks operations that must be FAILED whatever the state (unknown / empty network instance).
	Bad bool
}

var Entries = []EntryT{
	{Name: "ADD nh1", NI: D, Op: spb.AFTOperation_ADD, E: ribx.NHEntry(1, "1.1.1.1")},
	{Name: "DELETE nh1", NI: D, Op: spb.AFTOperation_DELETE, E: ribx.NHEntry(1, "")},
	{Name: "ADD v4->1", NI: D, Op: spb.AFTOperation_ADD, E: ribx.V4Entry("10.0.0.0/8", 1, "", nil)},
	{Name: "ADD nhg1{1}", NI: D, Op: spb.AFTOperation_ADD, E: ribx.NHGEntry(1, 0, [2]uint64{1, 1})},
	{Name: "DELETE nhg1", NI: D, Op: spb.AFTOperation_DELETE, E: ribx.NHGEntry(1, 0)},
	{Name: "REPLACE v4->2", NI: D, Op: spb.AFTOperation_REPLACE, E: ribx.V4Entry("10.0.0.0/8", 2, "", nil)},
	{Name: "DELETE v4", NI: D, Op: spb.AFTOperation_DELETE, E: ribx.V4Entry("10.0.0.0/8", 0, "", nil)},
	{Name: "ADD nh2 @\"\"", NI: "", Op: spb.AFTOperation_ADD, E: ribx.NHEntry(2, "2.2.2.2"), Bad: true},
	{Name: "ADD nh2 @NOPE", NI: "NOPE", Op: spb.AFTOperation_ADD, E: ribx.NHEntry(2, "2.2.2.2"), Bad: true},
	{Name: "ADD nhg2{2}", NI: D, Op: spb.AFTOperation_ADD, E: ribx.NHGEntry(2, 0, [2]uint64{2, 1})},
	{Name: "ADD nh2", NI: D, Op: spb.AFTOperation_ADD, E: ribx.NHEntry(2, "2.2.2.2")},
	// an entry of the other network instance that points at a group of the default one (held until that group exists)
	{Name: "ADD v4@V->1@D", NI: V, Op: spb.AFTOperation_ADD, E: ribx.V4Entry("10.0.0.0/8", 1, D, nil)},
	{Name: "ADD v6@V->1@D", NI: V, Op: spb.AFTOperation_ADD, E: ribx.V6Entry("2001:db8::/32", 1, D, nil)},
	// four entries per table of the default instance (streams: a Get of ANY table abandoned part-way)
	{Name: "ADD nh3", NI: D, Op: spb.AFTOperation_ADD, E: ribx.NHEntry(3, "3.3.3.3")},
	{Name: "ADD nh4", NI: D, Op: spb.AFTOperation_ADD, E: ribx.NHEntry(4, "4.4.4.4")},
	{Name: "ADD nhg3{3}", NI: D, Op: spb.AFTOperation_ADD, E: ribx.NHGEntry(3, 0, [2]uint64{3, 1})},
	{Name: "ADD nhg4{4}", NI: D, Op: spb.AFTOperation_ADD, E: ribx.NHGEntry(4, 0, [2]uint64{4, 1})},
	{Name: "ADD v4b->2", NI: D, Op: spb.AFTOperation_ADD, E: ribx.V4Entry("10.1.0.0/16", 2, "", nil)},
	{Name: "ADD v4c->3", NI: D, Op: spb.AFTOperation_ADD, E: ribx.V4Entry("10.2.0.0/16", 3, "", nil)},
	{Name: "ADD v4d->4", NI: D, Op: spb.AFTOperation_ADD, E: ribx.V4Entry("10.3.0.0/16", 4, "", nil)},
	{Name: "ADD v6a->1", NI: D, Op: spb.AFTOperation_ADD, E: ribx.V6Entry("2001:db8:1::/48", 1, "", nil)},
	{Name: "ADD v6b->2", NI: D, Op: spb.AFTOperation_ADD, E: ribx.V6Entry("2001:db8:2::/48", 2, "", nil)},
	{Name: "ADD v6c->3", NI: D, Op: spb.AFTOperation_ADD, E: ribx.V6Entry("2001:db8:3::/48", 3, "", nil)},
	{Name: "ADD v6d->4", NI: D, Op: spb.AFTOperation_ADD, E: ribx.V6Entry("2001:db8:4::/48", 4, "", nil)},
	{Name: "ADD mpls100->1", NI: D, Op: spb.AFTOperation_ADD, E: ribx.MPLSEntry(100, 1, "", nil)},
	{Name: "ADD mpls101->2", NI: D, Op: spb.AFTOperation_ADD, E: ribx.MPLSEntry(101, 2, "", nil)},
	{Name: "ADD mpls102->3", NI: D, Op: spb.AFTOperation_ADD, E: ribx.MPLSEntry(102, 3, "", nil)},
	{Name: "ADD mpls103->4", NI: D, Op: spb.AFTOperation_ADD, E: ribx.MPLSEntry(103, 4, "", nil)},
}

func entryIdx(name string) int {
	for i, e := range Entries {
		if e.Name == name {
			return i
		}
	}
	panic("sesshist: unknown entry " + name)
}

// Checks selects oracles.
type Checks struct {
	Primary  bool // C04
	Election bool // C05
	Answers  bool // C06
}

// Options configures instances.
type Options struct {
	Letters   []Letter
	Sessions  int
	FIBAck    bool
	NoFwdRefs bool
	Checks    Checks
}

type sess struct {
	open   bool
	sid    string
	last   *ID
	nextOp uint64
	sent   map[uint64]*spb.AFTOperation
	// results seen per op id on this session's stream, in order
	got map[uint64][]spb.AFTResult_Status
	// exempt: operations that were unanswered when the session lost the primary role (the property allows them to
	// stay unanswered; the server cancels held operations on a change of primary)
	exempt map[uint64]bool
}

type inst struct {
	o    *Options
	srv  *server.Server
	ss   []*sess
	inc  int
	max  *ID
	prim int // index into ss, -1 none, -2 a closed session
	fold *ribx.Model
	// all operations ever sent, for folding foreign acknowledgements
	allOps map[string]*spb.AFTOperation
	// dead sessions' histories still matter for "result for an id that was not sent on this stream"
}

// New returns the constructor for mc.Config.
func New(o *Options) func() mc.Instance {
	return func() mc.Instance {
		opts := []server.ServerOpt{server.WithVRFs([]string{V})}
		if o.NoFwdRefs {
			opts = append(opts, server.WithNoRIBForwardReferences())
		}
		s, err := server.New(opts...)
		if err != nil {
			panic(err)
		}
		in := &inst{o: o, srv: s, prim: -1, fold: ribx.NewModel(D, V), allOps: map[string]*spb.AFTOperation{}}
		for i := 0; i < o.Sessions; i++ {
			in.ss = append(in.ss, &sess{})
		}
		return in
	}
}

func (in *inst) params() *spb.SessionParameters {
	p := &spb.SessionParameters{Redundancy: spb.SessionParameters_SINGLE_PRIMARY, Persistence: spb.SessionParameters_PRESERVE}
	if in.o.FIBAck {
		p.AckType = spb.SessionParameters_RIB_AND_FIB_ACK
	}
	return p
}

type snap struct {
	rib, pend, elec string
}

func (in *inst) snapshot() snap {
	m, err := ribx.Snapshot(in.srv.VerifRIB())
	rc := "ERR"
	if err == nil {
		rc = m.Canon()
	}
	master, id := in.srv.VerifElection()
	return snap{rib: rc, pend: pendingRaw(in.srv), elec: fmt.Sprintf("%s/%v", master, fromProto(id))}
}

func pendingRaw(s *server.Server) string {
	var sb strings.Builder
	for _, p := range s.VerifRIB().VerifPending() {
		k, key, pl := ribx.Describe(p.Op)
		fmt.Fprintf(&sb, "%d:%s|%s|%s|%s|%s;", p.ID, p.NI, p.Op.GetOp(), k, key, ribx.CanonPayload(pl))
	}
	return sb.String()
}

func (in *inst) closeSession(s *sess) {
	in.srv.VerifDeleteClient(s.sid)
	s.open = false
	if in.prim >= 0 && in.ss[in.prim] == s {
		in.prim = -2
	}
}

func (in *inst) Apply(li int, check bool) []mc.Fail {
	l := in.o.Letters[li]
	if l.S >= len(in.ss) {
		return nil
	}
	s := in.ss[l.S]
	var out []mc.Fail
	bad := func(sig, format string, a ...any) {
		if check {
			out = append(out, mc.Fail{Sig: sig, What: fmt.Sprintf(format, a...)})
		}
	}
	switch l.K {
	case kOpen:
		if s.open {
			return nil
		}
		in.inc++
		*s = sess{open: true, sid: fmt.Sprintf("sess-%d-%d", l.S, in.inc), sent: map[uint64]*spb.AFTOperation{}, got: map[uint64][]spb.AFTResult_Status{}}
		if err := in.srv.VerifNewClient(s.sid); err != nil {
			bad("session/new-client-error", "newClient: %v", err)
		}
		if _, err := in.srv.VerifCheckParams(s.sid, in.params(), false); err != nil {
			bad("session/valid-params-rejected", "checkParams: %v", err)
			in.closeSession(s)
			return out
		}
		if err := in.srv.VerifUpdateParams(s.sid, in.params()); err != nil {
			bad("session/valid-params-rejected", "updateParams: %v", err)
			in.closeSession(s)
		}
	case kClose:
		if !s.open {
			return nil
		}
		in.closeSession(s)
	case kAnnounce:
		if !s.open {
			return nil
		}
		before := in.snapshot()
		res, err := in.srv.VerifRunElection(s.sid, l.ID.Proto())
		zero := l.ID == ID{}
		switch {
		case zero:
			if err == nil {
				bad("C05/zero-id-accepted", "announcing the zero id was answered %v", res)
			}
			if after := in.snapshot(); after != before {
				bad("C05/zero-id-changed-state", "announcing the zero id changed server state: %v -> %v", before, after)
			}
			if err != nil {
				in.closeSession(s)
			}
			return out
		case err != nil:
			bad("C05/valid-announcement-rejected", "announcing %v on a negotiated session: %v", l.ID, err)
			in.closeSession(s)
			return out
		}
		id := l.ID
		s.last = &id
		if in.max == nil || id.Cmp(*in.max) >= 0 {
			in.max = &id
			if in.prim >= 0 && in.prim != l.S {
				old := in.ss[in.prim]
				if old.exempt == nil {
					old.exempt = map[uint64]bool{}
				}
				for oid := range old.sent {
					if len(old.got[oid]) == 0 {
						old.exempt[oid] = true
					}
				}
			}
			in.prim = l.S
		}
		if in.o.Checks.Election && check {
			if got := fromProto(res.GetElectionId()); got == nil || *got != *in.max {
				bad("C05/response-is-not-running-maximum", "announce %v by session %d: response carries %v, the maximum announced so far is %v", id, l.S, got, *in.max)
			}
			master, cur := in.srv.VerifElection()
			if got := fromProto(cur); got == nil || *got != *in.max {
				bad("C05/server-id-is-not-running-maximum", "after announce %v: server holds %v, maximum announced is %v", id, got, *in.max)
			}
			wantMaster := "<closed session>"
			if in.prim >= 0 {
				wantMaster = in.ss[in.prim].sid
			}
			if in.prim >= 0 && master != wantMaster {
				bad("C05/wrong-primary", "after announce %v by session %d: primary is %q, want %q (most recent announcer of an id >= all earlier ones)", id, l.S, master, wantMaster)
			}
			if in.prim == -2 && in.sidLive(master) {
				bad("C05/wrong-primary", "after announce %v by session %d: primary moved to live session %q although it never announced an id >= the maximum", id, l.S, master)
			}
		}
	case kOperate:
		if !s.open {
			return nil
		}
		out = append(out, in.operate(l, s, check)...)
	case kFlush:
		// Flush is election-gated but is not an announcement: whatever id it carries and whatever the verdict, the
		// election (id and primary) is what the Modify sessions made it.
		master0, id0 := in.srv.VerifElection()
		req := &spb.FlushRequest{NetworkInstance: &spb.FlushRequest_Name{Name: V}}
		if l.Override {
			req.Election = &spb.FlushRequest_Override{Override: &spb.Empty{}}
		} else {
			req.Election = &spb.FlushRequest_Id{Id: l.ID.Proto()}
		}
		_, err := in.srv.Flush(context.Background(), req)
		if err == nil {
			in.fold.Flush(V)
		}
		if master1, id1 := in.srv.VerifElection(); master1 != master0 || !proto.Equal(id0, id1) {
			bad("C05/flush-changed-election", "%s (error: %v) changed the election from %s/%v to %s/%v", l.Name, err, master0, fromProto(id0), master1, fromProto(id1))
		}
	}
	if check {
		out = append(out, in.stateChecks()...)
	}
	return out
}

func (in *inst) sidLive(sid string) bool {
	for _, s := range in.ss {
		if s.open && s.sid == sid {
			return true
		}
	}
	return false
}

func (in *inst) operate(l Letter, s *sess, check bool) []mc.Fail {
	var out []mc.Fail
	bad := func(sig, format string, a ...any) {
		if check {
			out = append(out, mc.Fail{Sig: sig, What: fmt.Sprintf(format, a...)})
		}
	}
	var st *spb.Uint128
	switch l.St {
	case stOwn:
		if s.last == nil {
			return nil
		}
		st = s.last.Proto()
	case stCur:
		if in.max == nil {
			return nil
		}
		st = in.max.Proto()
	case stAbs:
		st = l.ID.Proto()
	}
	idxs := l.Batch
	if len(idxs) == 0 {
		idxs = []int{l.Entry}
	}
	var ops []*spb.AFTOperation
	var auth []bool
	okStamp := func(st *spb.Uint128) bool {
		return in.prim == l.S && s.last != nil && st != nil && (ID{st.High, st.Low}) == *s.last && in.max != nil && *s.last == *in.max
	}
	for i, ei := range idxs {
		e := Entries[ei]
		s.nextOp++
		op := ribx.Op(s.nextOp, e.NI, e.Op, proto.Clone(e.E))
		op.ElectionId = st
		if l.Other != nil && ((l.OtherFirst && i == 0) || (!l.OtherFirst && i == len(idxs)-1)) {
			switch *l.Other {
			case stNil:
				op.ElectionId = nil
			case stAbs:
				op.ElectionId = l.OtherID.Proto()
			}
		}
		auth = append(auth, okStamp(op.ElectionId))
		s.sent[op.Id] = op
		in.allOps[fmt.Sprintf("%s/%d", s.sid, op.Id)] = op
		ops = append(ops, op)
	}
	authorised, noneAuthorised := true, true
	for _, a := range auth {
		authorised = authorised && a
		noneAuthorised = noneAuthorised && !a
	}
	before := in.snapshot()
	heldBefore := map[uint64]*spb.AFTOperation{}
	for _, p := range in.srv.VerifRIB().VerifPending() {
		heldBefore[p.ID] = p.Op
	}
	resCh := make(chan *spb.ModifyResponse, 256)
	errCh := make(chan error, 256)
	in.srv.VerifDoModify(s.sid, ops, resCh, errCh)
	close(resCh)
	close(errCh)
	var errs []error
	for e := range errCh {
		errs = append(errs, e)
	}
	type res struct {
		id uint64
		st spb.AFTResult_Status
	}
	var results []res
	for r := range resCh {
		for _, ar := range r.GetResult() {
			results = append(results, res{ar.GetId(), ar.GetStatus()})
		}
	}
	sentNow := map[uint64]bool{}
	for _, op := range ops {
		sentNow[op.Id] = true
	}
	// fold acknowledgements (C01 at server tier) and account results per stream (C06)
	for _, r := range results {
		if _, mine := s.sent[r.id]; !mine {
			if in.o.Checks.Answers {
				bad("C06/result-for-id-not-sent-on-this-stream", "session %d received %s for operation id %d which it never sent", l.S, r.st, r.id)
			}
		}
		s.got[r.id] = append(s.got[r.id], r.st)
		if r.st == spb.AFTResult_RIB_PROGRAMMED {
			// Which operation was programmed? The first acknowledgement of an id submitted in this request is
			// for that operation; any other acknowledgement is for the operation that was held under that id
			// before the call (possibly another session's: that is reported by the C06 oracle, the fold just
			// follows what the RIB did).
			var op *spb.AFTOperation
			if sentNow[r.id] {
				op = s.sent[r.id]
				sentNow[r.id] = false
			} else {
				op = heldBefore[r.id]
			}
			if op != nil {
				in.fold.Apply(op)
			}
		}
	}
	if in.o.Checks.Answers && check {
		for id, sts := range s.got {
			if sig, what := AnswerRule(sts, in.o.FIBAck); sig != "" {
				bad("C06/"+sig, "session %d operation %d (%s): results %v: %s", l.S, id, ribx.Text(s.sent[id]), sts, what)
			}
		}
	}
	after := in.snapshot()
	closed := false
	if len(errs) > 0 && in.prim != l.S {
		// "... or ends that RPC with an error": the end of a non-primary session's RPC is part of what its
		// operation did, and must leave the primary's held operations alone as well.
		in.closeSession(s)
		closed = true
		after = in.snapshot()
	}
	if !authorised {
		if in.o.Checks.Primary && check {
			if noneAuthorised && after != before {
				bad("C04/unauthorised-operation-changed-state/"+diffSnap(before, after), "%s by session %d (primary=%d, stamp=%v, last=%v, max=%v) changed server state: %+v -> %+v", l.Name, l.S, in.prim, fromProto(st), s.last, in.max, before, after)
			}
			for i, op := range ops {
				if auth[i] {
					continue // (a correctly stamped operation of the primary in the same request)
				}
				nFailed := 0
				for _, r := range results {
					if r.id == op.Id {
						if r.st != spb.AFTResult_FAILED {
							bad("C04/unauthorised-operation-acknowledged", "%s by session %d (primary=%d, stamp=%v, last=%v, max=%v) was answered %s", l.Name, l.S, in.prim, fromProto(op.ElectionId), s.last, in.max, r.st)
						}
						nFailed++
					}
				}
				if nFailed == 0 && len(errs) == 0 {
					bad("C04/unauthorised-operation-unanswered", "%s by session %d was neither FAILED nor did it end the RPC", l.Name, l.S)
				}
			}
		}
	} else if in.o.Checks.Primary && check {
		if len(errs) > 0 {
			bad("C04/authorised-operation-ended-rpc", "%s by the primary with the current id ended the RPC: %v", l.Name, errs[0])
		}
		for i, op := range ops {
			e := Entries[idxs[i]]
			got := "none"
			for _, r := range results {
				if r.id == op.Id {
					got = r.st.String()
					break
				}
			}
			if e.Bad && got != "FAILED" {
				bad("C04/bad-network-instance-not-failed", "%s answered %s", e.Name, got)
			}
		}
	}
	if len(errs) > 0 {
		if in.o.Checks.Answers && check {
			for _, e := range errs[1:] {
				bad("C06/more-than-one-rpc-error", "doModify wrote %d errors for one request (second: %v)", len(errs), status.Convert(e).Message())
			}
		}
		if !closed {
			in.closeSession(s)
		}
	}
	return out
}

func diffSnap(a, b snap) string {
	var d []string
	if a.rib != b.rib {
		d = append(d, "rib")
	}
	if a.pend != b.pend {
		d = append(d, "held")
	}
	if a.elec != b.elec {
		d = append(d, "election")
	}
	return strings.Join(d, "+")
}

// AnswerRule checks the result sequence of one operation id on one stream.
func AnswerRule(sts []spb.AFTResult_Status, fib bool) (string, string) {
	nF, nR, nP := 0, 0, 0
	for i, s := range sts {
		switch s {
		case spb.AFTResult_FAILED:
			nF++
		case spb.AFTResult_RIB_PROGRAMMED:
			nR++
		case spb.AFTResult_FIB_PROGRAMMED:
			nP++
			if nR == 0 {
				return "fib-before-rib", fmt.Sprintf("FIB_PROGRAMMED at position %d before any RIB_PROGRAMMED", i)
			}
		}
	}
	switch {
	case nF > 1:
		return "failed-twice", "more than one FAILED"
	case nR > 1:
		return "rib-programmed-twice", "more than one RIB_PROGRAMMED"
	case nP > 1:
		return "fib-programmed-twice", "more than one FIB_PROGRAMMED"
	case nF > 0 && (nR > 0 || nP > 0):
		return "failed-and-success", "both FAILED and a success"
	case nP > 0 && !fib:
		return "fib-ack-not-negotiated", "FIB_PROGRAMMED although RIB acknowledgements were negotiated"
	case fib && nR == 1 && nP == 0:
		return "fib-ack-missing", "RIB_PROGRAMMED without FIB_PROGRAMMED although FIB acknowledgements were negotiated"
	}
	return "", ""
}

func (in *inst) stateChecks() []mc.Fail {
	var out []mc.Fail
	real, err := ribx.Snapshot(in.srv.VerifRIB())
	if err != nil {
		return []mc.Fail{{Sig: "rib/snapshot-error", What: err.Error()}}
	}
	if d := ribx.Diff(in.fold, real); d != "" {
		out = append(out, mc.Fail{Sig: "C01/server-contents-differ-from-fold/" + ribx.DiffKinds(in.fold, real), What: "installed state differs from the fold of RIB_PROGRAMMED results: " + d})
	}
	if in.o.Checks.Answers {
		// every operation sent on a live primary's stream is answered unless it is legitimately held
		held := map[uint64]bool{}
		for _, p := range in.srv.VerifRIB().VerifPending() {
			held[p.ID] = true
		}
		for i, s := range in.ss {
			if !s.open || in.prim != i {
				continue
			}
			for id, op := range s.sent {
				if len(s.got[id]) == 0 && !held[id] && !s.exempt[id] {
					out = append(out, mc.Fail{Sig: "C06/operation-never-answered", What: fmt.Sprintf("session %d (primary) operation %d (%s) has no result and is not held", i, id, ribx.Text(op))})
				}
			}
		}
		// ... and "legitimately held" means that a reference of the operation is still unresolved
		for _, p := range in.srv.VerifRIB().VerifPending() {
			if _, _, payload := ribx.Describe(p.Op); p.Op.GetOp() == spb.AFTOperation_ADD && payload != nil && real.Resolvable(p.NI, payload) {
				out = append(out, mc.Fail{Sig: "C06/operation-unanswered-although-resolvable", What: fmt.Sprintf("operation %d (%s) is held without a result although every entry it references is installed", p.ID, ribx.Text(p.Op))})
			}
		}
	}
	return out
}

func (in *inst) Canon() string {
	real, err := ribx.Snapshot(in.srv.VerifRIB())
	rc := "ERR"
	if err == nil {
		rc = real.Canon()
	}
	var ss []string
	for i, s := range in.ss {
		if !s.open {
			continue
		}
		var gs []string
		for id, g := range s.got {
			gs = append(gs, fmt.Sprintf("%d=%v", id, g))
		}
		sort.Strings(gs)
		var un []string
		for id := range s.sent {
			if len(s.got[id]) == 0 {
				un = append(un, fmt.Sprint(id))
			}
		}
		sort.Strings(un)
		var ex []string
		for id := range s.exempt {
			ex = append(ex, fmt.Sprint(id))
		}
		sort.Strings(ex)
		ss = append(ss, fmt.Sprintf("{last=%v prim=%v next=%d got=%v unanswered=%v exempt=%v}", s.last, in.prim == i, s.nextOp, gs, un, ex))
	}
	sort.Strings(ss)
	primState := "live"
	switch in.prim {
	case -1:
		primState = "none"
	case -2:
		primState = "closed"
	}
	return fmt.Sprintf("max=%v prim=%s sessions=%v rib=%s held=%s fold=%s", in.max, primState, ss, rc, pendingRaw(in.srv), in.fold.Canon())
}

func (in *inst) Obs() string { return "" }

// --- alphabets -----------------------------------------------------------------------------------------------

// Lattice is the default id lattice: every order type of two 128-bit ids with conflicting word orders.
var Lattice = []ID{{0, 0}, {0, 1}, {0, 2}, {1, 0}, {1, 1}, {1, 2}, {2, 1}}

// Boundary adds word-boundary ids.
var Boundary = []ID{{0, ^uint64(0)}, {1, 0}, {^uint64(0), 0}, {^uint64(0), ^uint64(0)}}

// MakeLetters builds the alphabet for n sessions.
func MakeLetters(n int, ids []ID, stamps []stamp, absIDs []ID, entries []string, batches [][]string) []Letter {
	var ls []Letter
	for s := 0; s < n; s++ {
		ls = append(ls, Letter{Name: fmt.Sprintf("open s%d", s), K: kOpen, S: s})
		ls = append(ls, Letter{Name: fmt.Sprintf("close s%d", s), K: kClose, S: s})
		for _, id := range ids {
			ls = append(ls, Letter{Name: fmt.Sprintf("announce s%d %v", s, id), K: kAnnounce, S: s, ID: id})
		}
		for _, e := range entries {
			for _, st := range stamps {
				switch st {
				case stAbs:
					for _, id := range absIDs {
						ls = append(ls, Letter{Name: fmt.Sprintf("operate s%d [%s] stamp=%v", s, e, id), K: kOperate, S: s, St: stAbs, ID: id, Entry: entryIdx(e)})
					}
				default:
					ls = append(ls, Letter{Name: fmt.Sprintf("operate s%d [%s] stamp=%s", s, e, [...]string{"none", "own", "current", "abs"}[st]), K: kOperate, S: s, St: st, Entry: entryIdx(e)})
				}
			}
		}
		for _, b := range batches {
			var idx []int
			for _, e := range b {
				idx = append(idx, entryIdx(e))
			}
			ls = append(ls, Letter{Name: fmt.Sprintf("operate s%d %v stamp=own", s, b), K: kOperate, S: s, St: stOwn, Batch: idx})
		}
	}
	return ls
}

// FlushLetters are Flush RPCs of the second network instance carrying each of the ids, and one with override.
func FlushLetters(ids []ID) []Letter {
	ls := []Letter{{Name: "flush " + V + " override", K: kFlush, Override: true}}
	for _, id := range ids {
		ls = append(ls, Letter{Name: fmt.Sprintf("flush %s id=%v", V, id), K: kFlush, ID: id})
	}
	return ls
}

// MixedLetters are requests of two operations of which one is stamped with the session's own id and the other one
// is not (no id / an absolute id), in both orders.
func MixedLetters(n int, abs ID) []Letter {
	var ls []Letter
	for s := 0; s < n; s++ {
		for _, first := range []bool{false, true} {
			for _, o := range []stamp{stNil, stAbs} {
				o := o
				names := []string{"ADD nh1 stamp=own", fmt.Sprintf("ADD nh2 stamp=%s", map[stamp]string{stNil: "none", stAbs: abs.String()}[o])}
				if first {
					names[0], names[1] = names[1], names[0]
				}
				b := []int{entryIdx("ADD nh1"), entryIdx("ADD nh2")}
				if first {
					b[0], b[1] = b[1], b[0]
				}
				ls = append(ls, Letter{Name: fmt.Sprintf("operate s%d %v", s, names), K: kOperate, S: s, St: stOwn, Batch: b, Other: &o, OtherID: abs, OtherFirst: first})
			}
		}
	}
	return ls
}

// Names lists letter names.
func Names(ls []Letter) []string {
	out := make([]string, len(ls))
	for i, l := range ls {
		out[i] = l.Name
	}
	return out
}
