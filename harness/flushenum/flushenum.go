// Package flushenum decides C08 by exhaustive enumeration: every RIB of a catalogue x every Flush target x every
// cell of the election decision table, on a real server.Server.Flush, against the decision table of the gRIBI
// specification (§4.3) and the reference model of what must remain.
package flushenum

import (
	"context"
	"fmt"
	"sort"
	"strings"
	"sync"

	"github.com/openconfig/gribigo/server"
	"google.golang.org/grpc/codes"
	"google.golang.org/grpc/status"
	"google.golang.org/protobuf/proto"

	"verif/harness/ribx"
	"verif/harness/sesshist"
	"verif/report"
	"verif/rt"

	spb "github.com/openconfig/gribi/v1/proto/service"
)

const (
	D = "DEFAULT"
	V = "VRF"
)

type step struct {
	ni string
	e  proto.Message
}

func m(i, w uint64) [2]uint64 { return [2]uint64{i, w} }

// catalogue of RIB construction scripts (all ADDs, applied in order through rib.AddEntry).
var catalogue = []struct {
	name  string
	steps []step
}{
	{"empty", nil},
	{"chain@D", []step{{D, ribx.NHEntry(1, "1.1.1.1")}, {D, ribx.NHGEntry(1, 0, m(1, 1))}, {D, ribx.V4Entry("10.0.0.0/8", 1, "", nil)}}},
	{"chains@D+V", []step{{D, ribx.NHEntry(1, "1.1.1.1")}, {D, ribx.NHGEntry(1, 0, m(1, 1))}, {D, ribx.V4Entry("10.0.0.0/8", 1, "", nil)}, {V, ribx.NHEntry(1, "2.2.2.2")}, {V, ribx.NHGEntry(1, 0, m(1, 1))}, {V, ribx.V4Entry("10.0.0.0/8", 1, "", nil)}}},
	{"D-entry->V-group", []step{{V, ribx.NHEntry(1, "2.2.2.2")}, {V, ribx.NHGEntry(1, 0, m(1, 1))}, {D, ribx.V4Entry("10.0.0.0/8", 1, V, nil)}}},
	{"V-entry->D-group", []step{{D, ribx.NHEntry(1, "1.1.1.1")}, {D, ribx.NHGEntry(1, 0, m(1, 1))}, {V, ribx.V4Entry("10.0.0.0/8", 1, D, nil)}, {V, ribx.V6Entry("2001:db8::/32", 1, D, nil)}}},
	{"group-with-backup", []step{{D, ribx.NHEntry(1, "1.1.1.1")}, {D, ribx.NHEntry(2, "2.2.2.2")}, {D, ribx.NHGEntry(2, 0, m(2, 1))}, {D, ribx.NHGEntry(1, 2, m(1, 1))}, {D, ribx.V4Entry("10.0.0.0/8", 1, "", nil)}}},
	{"two-groups-share-backup", []step{{D, ribx.NHEntry(1, "1.1.1.1")}, {D, ribx.NHEntry(2, "2.2.2.2")}, {D, ribx.NHGEntry(2, 0, m(2, 1))}, {D, ribx.NHGEntry(1, 2, m(1, 1))}, {D, ribx.NHGEntry(3, 2, m(1, 1))}}},
	{"backup-not-installed", []step{{D, ribx.NHEntry(1, "1.1.1.1")}, {D, ribx.NHGEntry(1, 9, m(1, 1))}, {D, ribx.MPLSEntry(100, 1, "", nil)}}},
	{"backup-is-also-primary", []step{{D, ribx.NHEntry(1, "1.1.1.1")}, {D, ribx.NHEntry(2, "2.2.2.2")}, {D, ribx.NHGEntry(2, 0, m(2, 1))}, {D, ribx.NHGEntry(1, 2, m(1, 1))}, {D, ribx.V4Entry("10.0.0.0/8", 2, "", nil)}, {D, ribx.V6Entry("2001:db8::/32", 1, "", nil)}}},
	{"circular-backups", []step{{D, ribx.NHEntry(1, "1.1.1.1")}, {D, ribx.NHGEntry(1, 2, m(1, 1))}, {D, ribx.NHGEntry(2, 1, m(1, 1))}}},
	{"self-backup", []step{{V, ribx.NHEntry(1, "1.1.1.1")}, {V, ribx.NHGEntry(1, 1, m(1, 1))}}},
	{"held-operations", []step{{D, ribx.NHEntry(1, "1.1.1.1")}, {D, ribx.NHGEntry(1, 0, m(1, 1))}, {D, ribx.V4Entry("10.0.0.0/8", 1, "", nil)}, {D, ribx.V4Entry("192.168.0.0/16", 7, "", nil)}, {V, ribx.NHGEntry(5, 0, m(5, 1))}}},
	{"all-kinds-both-instances", []step{{D, ribx.NHEntry(1, "1.1.1.1")}, {D, ribx.NHEntry(2, "2.2.2.2")}, {D, ribx.NHGEntry(1, 0, m(1, 1), m(2, 2))}, {D, ribx.V4Entry("10.0.0.0/8", 1, "", []byte{1})}, {D, ribx.V6Entry("2001:db8::/32", 1, "", nil)}, {D, ribx.MPLSEntry(100, 1, "", nil)},
		{V, ribx.NHEntry(1, "3.3.3.3")}, {V, ribx.NHGEntry(1, 0, m(1, 1))}, {V, ribx.V4Entry("10.0.0.0/8", 1, "", nil)}, {V, ribx.V6Entry("2001:db8::/32", 1, D, nil)}, {V, ribx.MPLSEntry(100, 1, "", nil)}}},
	{"D-v6+mpls->V-group", []step{{V, ribx.NHEntry(1, "2.2.2.2")}, {V, ribx.NHGEntry(1, 0, m(1, 1))}, {D, ribx.V6Entry("2001:db8::/32", 1, V, nil)}, {D, ribx.MPLSEntry(100, 1, V, nil)}}},
	{"V-mpls->D-group", []step{{D, ribx.NHEntry(1, "1.1.1.1")}, {D, ribx.NHGEntry(1, 0, m(1, 1))}, {V, ribx.MPLSEntry(100, 1, D, nil)}}},
	// entries that name their OWN network instance explicitly as the instance of their group (valid, and the same
	// reference as leaving the field unset)
	{"explicit-own-instance", []step{{D, ribx.NHEntry(1, "1.1.1.1")}, {D, ribx.NHGEntry(1, 0, m(1, 1))}, {D, ribx.V4Entry("10.0.0.0/8", 1, D, nil)}, {V, ribx.NHEntry(1, "3.3.3.3")}, {V, ribx.NHGEntry(1, 0, m(1, 1))}, {V, ribx.V6Entry("2001:db8::/32", 1, V, nil)}, {V, ribx.MPLSEntry(100, 1, V, nil)}}},
	{"both-directions", []step{{D, ribx.NHEntry(1, "1.1.1.1")}, {D, ribx.NHGEntry(1, 0, m(1, 1))}, {V, ribx.NHEntry(1, "3.3.3.3")}, {V, ribx.NHGEntry(1, 0, m(1, 1))}, {D, ribx.V4Entry("10.0.0.0/8", 1, V, nil)}, {V, ribx.V4Entry("10.0.0.0/8", 1, D, nil)}}},
}

type target struct {
	name string
	set  func(r *spb.FlushRequest)
	nis  []string // what a valid request flushes (nil = invalid)
	bad  []codes.Code
}

var targets = []target{
	{name: "none", set: func(r *spb.FlushRequest) {}, bad: []codes.Code{codes.InvalidArgument}},
	{name: "all", set: func(r *spb.FlushRequest) { r.NetworkInstance = &spb.FlushRequest_All{All: &spb.Empty{}} }, nis: []string{D, V}},
	{name: D, set: func(r *spb.FlushRequest) { r.NetworkInstance = &spb.FlushRequest_Name{Name: D} }, nis: []string{D}},
	{name: V, set: func(r *spb.FlushRequest) { r.NetworkInstance = &spb.FlushRequest_Name{Name: V} }, nis: []string{V}},
	{name: "unknown", set: func(r *spb.FlushRequest) { r.NetworkInstance = &spb.FlushRequest_Name{Name: "NOPE"} }, bad: []codes.Code{codes.InvalidArgument}},
	{name: "empty-name", set: func(r *spb.FlushRequest) { r.NetworkInstance = &spb.FlushRequest_Name{Name: ""} }, bad: []codes.Code{codes.InvalidArgument}},
}

type elec struct {
	name     string
	absent   bool
	override bool
	id       sesshist.ID
}

func elections(ids []sesshist.ID) []elec {
	out := []elec{{name: "absent", absent: true}, {name: "override", override: true}}
	for _, id := range ids {
		out = append(out, elec{name: "id" + id.String(), id: id})
	}
	return out
}

// Run decides C08.
func Run(rep *report.Report, tier string) {
	orders := rt.MapOrders(tier == "thorough")
	ids := []sesshist.ID{{0, 0}, {0, 1}, {0, 2}, {1, 0}, {1, 1}, {2, 1}}
	learnt := []*sesshist.ID{nil, {0, 2}, {1, 1}}
	if tier == "thorough" {
		ids = append(ids, sesshist.ID{0, ^uint64(0)}, sesshist.ID{^uint64(0), 0}, sesshist.ID{1, 2})
		learnt = append(learnt, &sesshist.ID{0, ^uint64(0)}, &sesshist.ID{2, 1}, &sesshist.ID{0, 1})
	}
	type job struct {
		ci, ti, ei, li int
	}
	var jobs []job
	els := elections(ids)
	for ci := range catalogue {
		for ti := range targets {
			for ei := range els {
				for li := range learnt {
					jobs = append(jobs, job{ci, ti, ei, li})
				}
			}
		}
	}
	var mu sync.Mutex
	outcomes := map[string]int{}
	// both iteration orders of the RIB's maps: Flush removes entries, groups and next-hops in map order
	for _, order := range orders {
		rt.MapOrder = order
		var wg sync.WaitGroup
		ch := make(chan job)
		for w := 0; w < 16; w++ {
			wg.Add(1)
			go func() {
				defer wg.Done()
				for j := range ch {
					name := fmt.Sprintf("rib=%s target=%s election=%s learnt=%v map-order=%d", catalogue[j.ci].name, targets[j.ti].name, els[j.ei].name, learnt[j.li], order)
					rep.Guard(name, map[string]any{"case": name}, func() {
						oc, fails := one(j.ci, targets[j.ti], els[j.ei], learnt[j.li])
						mu.Lock()
						outcomes[oc]++
						mu.Unlock()
						for _, f := range fails {
							rep.Violate(f[0], name+": "+f[1], map[string]any{"case": name})
						}
					})
				}
			}()
		}
		for _, j := range jobs {
			ch <- j
		}
		close(ch)
		wg.Wait()
	}
	rt.MapOrder = 0
	// once more with the second network instance created late (ascending map order)
	lateVRF = true
	{
		var wg sync.WaitGroup
		ch := make(chan job)
		for w := 0; w < 16; w++ {
			wg.Add(1)
			go func() {
				defer wg.Done()
				for j := range ch {
					name := fmt.Sprintf("rib=%s target=%s election=%s learnt=%v network-instance-created-late", catalogue[j.ci].name, targets[j.ti].name, els[j.ei].name, learnt[j.li])
					rep.Guard(name, map[string]any{"case": name}, func() {
						oc, fails := one(j.ci, targets[j.ti], els[j.ei], learnt[j.li])
						mu.Lock()
						outcomes[oc]++
						mu.Unlock()
						for _, f := range fails {
							rep.Violate(f[0], name+": "+f[1], map[string]any{"case": name})
						}
					})
				}
			}()
		}
		for _, j := range jobs {
			ch <- j
		}
		close(ch)
		wg.Wait()
	}
	lateVRF = false
	orders = append(orders, -1) // (counted as one more pass below)
	rep.Set("states", len(orders)*len(jobs))
	rep.Set("transitions", len(orders)*len(jobs))
	rep.Set("traces_validated_against_impl", len(orders)*len(jobs))
	rep.Set("evaluations", len(orders)*len(jobs))
	rep.Set("distinct_nontrivial", len(orders)*len(jobs))
	rep.Set("rule", "every (RIB of the catalogue, Flush target, election field, learnt election id, map iteration order) tuple is one case, all distinct by construction; each runs on a fresh real server")
	rep.Set("exhaustive", true)
	rep.Set("distinct_outcomes", outcomes)
	rep.Set("dimensions", map[string]int{"ribs": len(catalogue), "targets": len(targets), "election_fields": len(els), "learnt_ids": len(learnt)})
	rep.Sample(map[string]any{"rib": catalogue[5].name, "target": "all", "election": "override", "learnt": "(0,2)"})
	rep.Sample(map[string]any{"rib": catalogue[3].name, "target": V, "election": "id(0,1)", "learnt": "(1,1)"})
}

// lateVRF (set per pass by Run): the second network instance is created with Server.AddNetworkInstance only after the
// server has already served a Flush and a Get of ALL network instances - whatever the server or the RIB memoised about
// the set of instances by then must not hide the later one.
var lateVRF bool

func build(ci int, learnt *sesshist.ID) (*server.Server, error) { return buildX(ci, learnt, lateVRF) }

func buildX(ci int, learnt *sesshist.ID, late bool) (*server.Server, error) {
	var s *server.Server
	var err error
	if late {
		if s, err = server.New(); err != nil {
			return nil, err
		}
		if _, err := s.Flush(context.Background(), &spb.FlushRequest{NetworkInstance: &spb.FlushRequest_All{All: &spb.Empty{}}, Election: &spb.FlushRequest_Override{Override: &spb.Empty{}}}); err != nil {
			return nil, fmt.Errorf("flush of the empty server: %v", err)
		}
		_ = s.VerifRIB().KnownNetworkInstances()
		if _, err := s.VerifRIB().RIBContents(); err != nil {
			return nil, err
		}
		if err := s.AddNetworkInstance(V); err != nil {
			return nil, err
		}
	} else if s, err = server.New(server.WithVRFs([]string{V})); err != nil {
		return nil, err
	}
	for i, st := range catalogue[ci].steps {
		op := ribx.Op(uint64(i+1), st.ni, spb.AFTOperation_ADD, proto.Clone(st.e))
		if _, _, err := s.VerifRIB().AddEntry(st.ni, op); err != nil {
			return nil, err
		}
	}
	if learnt != nil {
		p := &spb.SessionParameters{Redundancy: spb.SessionParameters_SINGLE_PRIMARY, Persistence: spb.SessionParameters_PRESERVE}
		for _, c := range []string{"c0", "c1"} {
			if err := s.VerifNewClient(c); err != nil {
				return nil, err
			}
			if _, err := s.VerifCheckParams(c, p, false); err != nil {
				return nil, err
			}
			if err := s.VerifUpdateParams(c, p); err != nil {
				return nil, err
			}
		}
		// The highest learnt id is the maximum of a short announcement HISTORY, not of a single announcement: the
		// primary announces the id, then re-announces a lower one, then another session announces a lower one
		// (none of which may lower what the server has learnt).
		if _, err := s.VerifRunElection("c0", learnt.Proto()); err != nil {
			return nil, err
		}
		if lower := lowerID(*learnt); lower != nil {
			if _, err := s.VerifRunElection("c0", lower.Proto()); err != nil {
				return nil, err
			}
			if _, err := s.VerifRunElection("c1", lower.Proto()); err != nil {
				return nil, err
			}
		}
	}
	return s, nil
}

// lowerID returns a non-zero id below id (nil if there is none).
func lowerID(id sesshist.ID) *sesshist.ID {
	switch {
	case id.Lo > 1:
		return &sesshist.ID{Hi: id.Hi, Lo: id.Lo - 1}
	case id.Hi > 0:
		return &sesshist.ID{Hi: id.Hi - 1, Lo: ^uint64(0)}
	}
	return nil
}

func stateOf(s *server.Server) (*ribx.Model, string) {
	mm, err := ribx.Snapshot(s.VerifRIB())
	if err != nil {
		return nil, "ERR " + err.Error()
	}
	_, id := s.VerifElection()
	return mm, fmt.Sprintf("%v|%s|%s", id, ribx.PendingCanon(s.VerifRIB()), ribx.RefCanon(s.VerifRIB()))
}

func one(ci int, t target, e elec, learnt *sesshist.ID) (string, [][2]string) {
	var fails [][2]string
	bad := func(sig, format string, a ...any) { fails = append(fails, [2]string{sig, fmt.Sprintf(format, a...)}) }
	s, err := build(ci, learnt)
	if err != nil {
		return "build-error", [][2]string{{"engine/build", err.Error()}}
	}
	before, beforeRest := stateOf(s)
	req := &spb.FlushRequest{}
	t.set(req)
	switch {
	case e.override:
		req.Election = &spb.FlushRequest_Override{Override: &spb.Empty{}}
	case !e.absent:
		req.Election = &spb.FlushRequest_Id{Id: e.id.Proto()}
	}
	// acceptable rejection codes, one per malformation that applies (the specification fixes the code of each
	// malformation, not a precedence among them)
	allowed := map[codes.Code]bool{}
	for _, c := range t.bad {
		allowed[c] = true
	}
	mayAcceptToo := false
	switch {
	case e.absent && learnt != nil:
		allowed[codes.FailedPrecondition] = true // UNSPECIFIED_ELECTION_BEHAVIOR
	case e.absent:
	case e.override:
		if learnt == nil {
			// election set while no election id was ever learnt (ALL_PRIMARY): the specification rejects any
			// election field, the proto comments let override always pass. Both are accepted.
			mayAcceptToo = true
			allowed[codes.FailedPrecondition] = true
		}
	default:
		zero := e.id == sesshist.ID{}
		if zero {
			allowed[codes.InvalidArgument] = true // INVALID_ELECTION_ID
		}
		if learnt == nil {
			allowed[codes.FailedPrecondition] = true // ELECTION_ID_IN_ALL_PRIMARY
		} else if !zero && e.id.Cmp(*learnt) < 0 {
			allowed[codes.FailedPrecondition] = true // NOT_PRIMARY
		}
	}
	mustReject := len(allowed) > 0 && !(mayAcceptToo && len(t.bad) == 0)
	res, ferr := s.Flush(context.Background(), req)
	code := status.Code(ferr)
	after, afterRest := stateOf(s)
	outcome := code.String()
	if ferr == nil {
		outcome = "OK/" + res.GetResult().String()
	}
	switch {
	case mustReject || (len(allowed) > 0 && ferr != nil && allowed[code]):
		if ferr == nil {
			bad("C08/malformed-or-unauthorised-flush-accepted", "accepted (%v); the specification rejects it with one of %v", res.GetResult(), keys(allowed))
		} else if !allowed[code] {
			bad(fmt.Sprintf("C08/wrong-status/%s-not-in-%v", code, keys(allowed)), "rejected with %v (%s); the specification assigns %v", code, status.Convert(ferr).Message(), keys(allowed))
		}
		if before.Canon() != after.Canon() || beforeRest != afterRest {
			bad("C08/rejected-flush-changed-state", "a rejected flush (%v) changed server state: %s", code, ribx.Diff(before, after))
		}
	default:
		want := before.Clone()
		want.Flush(t.nis...)
		if d := ribx.Diff(want, after); d != "" {
			bad("C08/wrong-entries-after-flush/"+ribx.DiffKinds(want, after), "after an authorised flush of %v: %s", t.nis, d)
		}
		if ferr != nil {
			removedAll := true
			for _, en := range after.E {
				for _, n := range t.nis {
					if en.NI == n {
						removedAll = false
					}
				}
			}
			bad(fmt.Sprintf("C08/authorised-flush-not-ok/%s/removed-everything-%v", code, removedAll), "authorised flush of %v answered %v: %s", t.nis, code, strings.TrimSpace(status.Convert(ferr).Message()))
		} else if res.GetResult() != spb.FlushResponse_OK {
			bad("C08/authorised-flush-not-ok/result", "result %v", res.GetResult())
		}
		// deletion protection consistent with what remains
		rc := s.VerifRIB().VerifRefCounts()
		for _, en := range after.E {
			if en.Kind != ribx.NH && en.Kind != ribx.NHG {
				continue
			}
			var id uint64
			fmt.Sscan(en.Key, &id)
			cnt := rc[en.NI].NextHopGroup[id]
			if en.Kind == ribx.NH {
				cnt = rc[en.NI].NextHop[id]
			}
			if refs := after.Referrers(en.NI, en.Kind, en.Key); (cnt > 0) != (refs > 0) {
				bad("C08/deletion-protection-inconsistent-after-flush/"+en.Kind.String(), "%s %s@%s: %d referrers remain but protection counter is %d", en.Kind, en.Key, en.NI, refs, cnt)
			}
		}
		// Behavioural probe: every group that an entry which remains still points at, but that the flush removed,
		// is installed again (with a fresh next-hop); it must then be protected, because a referrer is installed.
		probed := 0
		for _, en := range after.E {
			for _, ref := range ribx.Refs(en.NI, en.Payload) {
				if ref.Kind != ribx.NHG || after.Has(ref.NI, ribx.NHG, ref.Key) || !after.NIs[ref.NI] {
					continue
				}
				var gid uint64
				fmt.Sscan(ref.Key, &gid)
				r := s.VerifRIB()
				r.AddEntry(ref.NI, ribx.Op(9001, ref.NI, spb.AFTOperation_ADD, ribx.NHEntry(77, "7.7.7.7")))
				r.AddEntry(ref.NI, ribx.Op(9002, ref.NI, spb.AFTOperation_ADD, ribx.NHGEntry(gid, 0, m(77, 1))))
				_, delFails, _ := r.DeleteEntry(ref.NI, ribx.Op(9003, ref.NI, spb.AFTOperation_DELETE, ribx.NHGEntry(gid, 0)))
				probed++
				if len(delFails) == 0 {
					bad("C08/flush-dropped-protection-of-group-still-referenced-from-another-instance", "after flushing %v, %s@%s still points at group %s@%s; the group was re-installed and its DELETE was accepted", t.nis, en.Key, en.NI, ref.Key, ref.NI)
				}
			}
		}
		// ... and for keys that are not installed any more: a later re-install must be deletable exactly when
		// nothing that remains refers to it (counters of flushed instances must not leak).
		for ni, c := range rc {
			for id, cnt := range c.NextHopGroup {
				key := fmt.Sprint(id)
				if after.Has(ni, ribx.NHG, key) {
					continue
				}
				if refs := after.Referrers(ni, ribx.NHG, key); (cnt > 0) != (refs > 0) {
					bad("C08/stale-protection-counter-after-flush/nhg", "nhg %s@%s is gone, %d entries that remain refer to it, but its counter is %d", key, ni, refs, cnt)
				}
			}
			for id, cnt := range c.NextHop {
				key := fmt.Sprint(id)
				if after.Has(ni, ribx.NH, key) {
					continue
				}
				if refs := after.Referrers(ni, ribx.NH, key); (cnt > 0) != (refs > 0) {
					bad("C08/stale-protection-counter-after-flush/nh", "nh %s@%s is gone, %d groups that remain contain it, but its counter is %d", key, ni, refs, cnt)
				}
			}
		}
	}
	return outcome, fails
}

func keys(m map[codes.Code]bool) []string {
	var out []string
	for k := range m {
		out = append(out, k.String())
	}
	sort.Strings(out)
	return out
}

// CatalogueSize and BuildCatalogue expose the RIB catalogue to other enumerations (C07).
func CatalogueSize() int { return len(catalogue) }

// BuildCatalogue builds catalogue entry i on a fresh server.
// BuildCatalogueLate is BuildCatalogue with the second network instance created after the server served its first
// requests over all instances.
func BuildCatalogueLate(i int) (*server.Server, string, error) {
	s, err := buildX(i, nil, true)
	return s, catalogue[i].name + "/network-instance-created-late", err
}

func BuildCatalogue(i int) (*server.Server, string, error) {
	s, err := build(i, nil)
	return s, catalogue[i].name, err
}
