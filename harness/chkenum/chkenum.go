// Package chkenum decides C17 by bounded-exhaustive enumeration of the inputs of the chk assertion helpers with a
// fatal-capturing testing.TB: a helper must call Fatal if and only if the expected item is absent, under exactly
// the documented ignore options. The reference is a direct definition of "present" (model), not the helper's code.
package chkenum

import (
	"errors"
	"fmt"
	"sort"
	"strings"
	"sync"
	"testing"

	"github.com/openconfig/gribigo/chk"
	"github.com/openconfig/gribigo/client"
	"github.com/openconfig/gribigo/constants"
	"github.com/openconfig/gribigo/fluent"
	"google.golang.org/grpc/codes"
	"google.golang.org/grpc/status"
	"google.golang.org/protobuf/proto"

	"verif/report"

	spb "github.com/openconfig/gribi/v1/proto/service"
)

// capTB captures Fatal calls.
type capTB struct {
	testing.TB
	failed bool
	msg    string
}

type stop struct{}

func (c *capTB) Helper()                   {}
func (c *capTB) Logf(string, ...any)       {}
func (c *capTB) Log(...any)                {}
func (c *capTB) Errorf(f string, a ...any) { c.failed, c.msg = true, fmt.Sprintf(f, a...) }
func (c *capTB) Error(a ...any)            { c.failed, c.msg = true, fmt.Sprint(a...) }
func (c *capTB) Fatalf(f string, a ...any) {
	c.failed, c.msg = true, fmt.Sprintf(f, a...)
	panic(stop{})
}
func (c *capTB) Fatal(a ...any)        { c.failed, c.msg = true, fmt.Sprint(a...); panic(stop{}) }
func (c *capTB) FailNow()              { c.failed = true; panic(stop{}) }
func (c *capTB) Fail()                 { c.failed = true }
func (c *capTB) Failed() bool          { return c.failed }
func (c *capTB) Name() string          { return "chkenum" }
func (c *capTB) Cleanup(func())        {}
func (c *capTB) Skip(...any)           {}
func (c *capTB) Skipf(string, ...any)  {}
func (c *capTB) SkipNow()              {}
func (c *capTB) Skipped() bool         { return false }
func (c *capTB) TempDir() string       { return "" }
func (c *capTB) Setenv(string, string) {}

// fatal runs f with a capturing TB and reports whether it failed; a panic other than the sentinel is returned.
func fatal(f func(t testing.TB)) (failed bool, crash string) {
	c := &capTB{}
	defer func() {
		if r := recover(); r != nil {
			if _, ok := r.(stop); ok {
				failed = true
				return
			}
			crash = fmt.Sprint(r)
		}
	}()
	f(c)
	return c.failed, ""
}

// --- HasResult / HasResultsCache ------------------------------------------------------------------------------

type kindT int

const (
	kNH kindT = iota
	kNHG
	kV4
	kV6
	kMPLS
	kElection
	kParams
)

var kindNames = []string{"nh", "nhg", "v4", "v6", "mpls", "election", "params"}

// resultDomain builds the element alphabet.
func resultDomain(thorough bool) []*client.OpResult {
	var out []*client.OpResult
	statuses := []spb.AFTResult_Status{spb.AFTResult_FAILED, spb.AFTResult_RIB_PROGRAMMED}
	types := []constants.OpType{constants.Add, constants.Delete}
	ids := []uint64{1, 2}
	serr := []string{""}
	if thorough {
		statuses = append(statuses, spb.AFTResult_FIB_PROGRAMMED)
		serr = append(serr, "boom")
	}
	for _, k := range []kindT{kNH, kNHG, kV4, kV6, kMPLS} {
		for _, id := range ids {
			for _, st := range statuses {
				for _, ty := range types {
					for _, se := range serr {
						for _, key := range []uint64{1, 2} {
							if key == 2 && !(thorough || (st == spb.AFTResult_RIB_PROGRAMMED && ty == constants.Add)) {
								continue
							}
							d := &client.OpDetailsResults{Type: ty}
							switch k {
							case kNH:
								d.NextHopIndex = key
							case kNHG:
								d.NextHopGroupID = key
							case kV4:
								d.IPv4Prefix = fmt.Sprintf("%d.0.0.0/8", key)
							case kV6:
								d.IPv6Prefix = fmt.Sprintf("2001:db8:%d::/48", key)
							case kMPLS:
								d.MPLSLabel = 100 + key
							}
							out = append(out, &client.OpResult{Timestamp: 42, Latency: 7, OperationID: id, ProgrammingResult: st, Details: d, ServerError: se})
						}
					}
				}
			}
		}
	}
	if !thorough {
		// two results that differ from an element above only in the server error text (IncludeServerError option)
		for _, se := range []string{"boom", "other"} {
			out = append(out, &client.OpResult{Timestamp: 42, Latency: 7, OperationID: 1, ProgrammingResult: spb.AFTResult_FAILED, Details: &client.OpDetailsResults{Type: constants.Add, NextHopIndex: 1}, ServerError: se})
		}
	}
	out = append(out, &client.OpResult{Timestamp: 1, CurrentServerElectionID: &spb.Uint128{Low: 1}})
	out = append(out, &client.OpResult{Timestamp: 1, CurrentServerElectionID: &spb.Uint128{Low: 2}})
	out = append(out, &client.OpResult{Timestamp: 1, SessionParameters: &spb.SessionParametersResult{Status: spb.SessionParametersResult_OK}})
	return out
}

type ropts struct{ ignoreID, includeErr bool }

func (o ropts) list() []any {
	var out []any
	if o.ignoreID {
		out = append(out, chk.IgnoreOperationID())
	}
	if o.includeErr {
		out = append(out, chk.IncludeServerError())
	}
	return out
}

// present is the reference definition: res contains an element equal to want on every field except Timestamp and
// Latency, except Details when want has none, except OperationID / ServerError per the options.
func present(res []*client.OpResult, want *client.OpResult, o ropts) bool {
	for _, r := range res {
		if r == nil {
			continue
		}
		if !o.ignoreID && r.OperationID != want.OperationID {
			continue
		}
		if o.includeErr && r.ServerError != want.ServerError {
			continue
		}
		if r.ClientError != want.ClientError || r.ProgrammingResult != want.ProgrammingResult {
			continue
		}
		if !proto.Equal(r.CurrentServerElectionID, want.CurrentServerElectionID) || (r.CurrentServerElectionID == nil) != (want.CurrentServerElectionID == nil) {
			continue
		}
		if !proto.Equal(r.SessionParameters, want.SessionParameters) || (r.SessionParameters == nil) != (want.SessionParameters == nil) {
			continue
		}
		if want.Details != nil {
			if r.Details == nil || *r.Details != *want.Details {
				continue
			}
		}
		return true
	}
	return false
}

func keyOf(r *client.OpResult) string {
	if r == nil || r.Details == nil {
		return ""
	}
	d := r.Details
	switch {
	case d.NextHopGroupID != 0:
		return fmt.Sprintf("nhg|%d", d.NextHopGroupID)
	case d.NextHopIndex != 0:
		return fmt.Sprintf("nh|%d", d.NextHopIndex)
	case d.IPv4Prefix != "":
		return "v4|" + d.IPv4Prefix
	case d.IPv6Prefix != "":
		return "v6|" + d.IPv6Prefix
	case d.MPLSLabel != 0:
		return fmt.Sprintf("mpls|%d", d.MPLSLabel)
	}
	return ""
}

func describeR(r *client.OpResult) string {
	if r == nil {
		return "<nil>"
	}
	switch {
	case r.CurrentServerElectionID != nil:
		return fmt.Sprintf("election(%d)", r.CurrentServerElectionID.Low)
	case r.SessionParameters != nil:
		return "params-ok"
	}
	d := "no-details"
	if r.Details != nil {
		d = fmt.Sprintf("%v %s", r.Details.Type, keyOf(r))
	}
	return fmt.Sprintf("{id %d %s %s err=%q}", r.OperationID, r.ProgrammingResult, d, r.ServerError)
}

type fail struct{ sig, what string }

// --- Get responses ---------------------------------------------------------------------------------------------

type gent struct {
	kind kindT
	ni   string
	key  uint64
}

func (g gent) entry() *spb.AFTEntry {
	e, _ := g.want().EntryProto()
	return e
}

func (g gent) want() fluent.GRIBIEntry {
	switch g.kind {
	case kNH:
		return fluent.NextHopEntry().WithNetworkInstance(g.ni).WithIndex(g.key).WithIPAddress("1.1.1.1")
	case kNHG:
		return fluent.NextHopGroupEntry().WithNetworkInstance(g.ni).WithID(g.key).AddNextHop(1, 1)
	case kV4:
		return fluent.IPv4Entry().WithNetworkInstance(g.ni).WithPrefix(fmt.Sprintf("%d.0.0.0/8", g.key)).WithNextHopGroup(1)
	case kV6:
		return fluent.IPv6Entry().WithNetworkInstance(g.ni).WithPrefix(fmt.Sprintf("2001:db8:%d::/48", g.key)).WithNextHopGroup(1)
	default:
		return fluent.LabelEntry().WithNetworkInstance(g.ni).WithLabel(uint32(100 + g.key)).WithNextHopGroup(1)
	}
}

func (g gent) String() string { return fmt.Sprintf("%s %d@%s", kindNames[g.kind], g.key, g.ni) }

// Run decides C17.
func Run(rep *report.Report, tier string) {
	guardRep = rep
	thorough := tier == "thorough"
	var mu sync.Mutex
	evals := 0
	outcomes := map[string]int{}
	record := func(oc string, fs []fail, sample any) {
		mu.Lock()
		evals++
		outcomes[oc]++
		mu.Unlock()
		for _, f := range fs {
			rep.Violate(f.sig, f.what, sample)
		}
	}
	dom := resultDomain(thorough)
	// result lists: all lists of length <= 2 (thorough: <= 3 over a reduced alphabet), plus lists with a nil element
	var lists [][]*client.OpResult
	lists = append(lists, nil)
	for _, a := range dom {
		lists = append(lists, []*client.OpResult{a})
	}
	small := dom
	if len(small) > 40 {
		small = nil
		for i, d := range dom {
			if i%(len(dom)/36+1) == 0 || d.Details == nil {
				small = append(small, d)
			}
		}
	}
	for _, a := range small {
		for _, b := range small {
			lists = append(lists, []*client.OpResult{a, b})
		}
	}
	if thorough {
		tiny := small
		if len(tiny) > 14 {
			tiny = nil
			for i, d := range small {
				if i%(len(small)/12+1) == 0 || d.Details == nil {
					tiny = append(tiny, d)
				}
			}
		}
		for _, a := range tiny {
			for _, b := range tiny {
				for _, c := range tiny {
					lists = append(lists, []*client.OpResult{a, b, c})
				}
			}
		}
	}
	lists = append(lists, []*client.OpResult{nil}, []*client.OpResult{nil, dom[0]}, []*client.OpResult{dom[0], nil})
	// what a server that acknowledges out of order produces: every permutation of the acknowledgements of four
	// operations with consecutive ids (a helper that assumes sorted / dense lists shows here)
	var acks []*client.OpResult
	for id := uint64(1); id <= 4; id++ {
		acks = append(acks, &client.OpResult{OperationID: id, ProgrammingResult: spb.AFTResult_RIB_PROGRAMMED, Details: &client.OpDetailsResults{Type: constants.Add, NextHopIndex: 10 + id}})
	}
	var permLists [][]*client.OpResult
	var perm func(cur []*client.OpResult, used int)
	perm = func(cur []*client.OpResult, used int) {
		if len(cur) == len(acks) {
			permLists = append(permLists, append([]*client.OpResult{}, cur...))
			return
		}
		for i, a := range acks {
			if used&(1<<i) == 0 {
				perm(append(cur, a), used|1<<i)
			}
		}
	}
	perm(nil, 0)
	lists = append(lists, permLists...)
	// wants: the alphabet, plus variants without Details
	var wants []*client.OpResult
	for _, d := range dom {
		wants = append(wants, d)
		if d.Details != nil && d.OperationID == 1 && d.Details.Type == constants.Add {
			nd := *d
			nd.Details = nil
			wants = append(wants, &nd)
		}
	}
	wants = append(wants, acks...)
	allOpts := []ropts{{false, false}, {true, false}, {false, true}, {true, true}}
	idx := make([]int, len(lists))
	for i := range idx {
		idx[i] = i
	}
	par(idx, func(li int) {
		res := lists[li]
		for _, want := range wants {
			for _, o := range allOpts {
				exp := present(res, want, o)
				failed, crash := fatal(func(t testing.TB) { callHasResult(t, res, want, o) })
				sample := map[string]any{"helper": "HasResult", "results": descList(res), "want": describeR(want), "ignore_operation_id": o.ignoreID, "include_server_error": o.includeErr}
				var fs []fail
				switch {
				case crash != "":
					fs = append(fs, fail{"C17/HasResult/panic", fmt.Sprintf("HasResult panicked (%s) on %v", crash, sample)})
				case failed && exp:
					fs = append(fs, fail{"C17/HasResult/fails-although-present", fmt.Sprintf("%v", sample)})
				case !failed && !exp:
					fs = append(fs, fail{"C17/HasResult/passes-although-absent/" + wantKind(want), fmt.Sprintf("%v", sample)})
				}
				record(fmt.Sprintf("HasResult/present=%v", exp), fs, sample)
			}
		}
	})
	// HasResultsCache: want lists of length 1 and 2 over a reduced alphabet
	var wl [][]*client.OpResult
	for _, a := range wants {
		wl = append(wl, []*client.OpResult{a})
	}
	wsmall := wants
	if lim := map[bool]int{false: 14, true: 30}[thorough]; len(wsmall) > lim {
		wsmall = nil
		for i, w := range wants {
			if i%(len(wants)/lim+1) == 0 || (w.Details == nil && w.OperationID != 0 && i%3 == 0) || (w.Details == nil && w.OperationID == 0) {
				wsmall = append(wsmall, w)
			}
		}
	}
	for _, a := range wsmall {
		for _, b := range wsmall {
			wl = append(wl, []*client.OpResult{a, b})
		}
	}
	wl = append(wl, nil)
	clists := lists
	if lim := map[bool]int{false: 300, true: 900}[thorough]; len(clists) > lim {
		clists = nil
		for i, l := range lists {
			if len(l) <= 1 || i%(len(lists)/lim+1) == 0 {
				clists = append(clists, l)
			}
		}
	}
	if len(clists) != len(lists) {
		clists = append(clists, permLists...)
	}
	cidx := make([]int, len(clists))
	for i := range cidx {
		cidx[i] = i
	}
	par(cidx, func(li int) {
		res := clists[li]
		hasNil := false
		for _, r := range res {
			if r == nil {
				hasNil = true
			}
		}
		if hasNil {
			return // the cache indexes its input; nil elements are not part of its documented domain
		}
		for _, ws := range wl {
			for _, o := range allOpts {
				plainOK := true
				for _, w := range ws {
					if !present(res, w, o) {
						plainOK = false
					}
				}
				failed, crash := fatal(func(t testing.TB) { callCache(t, res, ws, o) })
				sample := map[string]any{"helper": "HasResultsCache", "results": descList(res), "wants": descList(ws), "ignore_operation_id": o.ignoreID, "include_server_error": o.includeErr}
				var fs []fail
				// "test error" cases (IgnoreOperationID with a want that has no details) are documented fatal
				testErr := false
				for _, w := range ws {
					if o.ignoreID && w.Details == nil {
						testErr = true
					}
				}
				switch {
				case crash != "":
					fs = append(fs, fail{"C17/HasResultsCache/panic", fmt.Sprintf("HasResultsCache panicked (%s) on %v", crash, sample)})
				case !failed && !plainOK:
					var ks []string
					for _, w := range ws {
						if !present(res, w, o) {
							ks = append(ks, wantKind(w))
						}
					}
					sort.Strings(ks)
					fs = append(fs, fail{"C17/HasResultsCache/passes-where-HasResult-fails/" + strings.Join(uniq(ks), "+"), fmt.Sprintf("%v", sample)})
				case failed && plainOK && !testErr && uniqueKeys(res, o):
					fs = append(fs, fail{"C17/HasResultsCache/fails-although-present-and-keys-unique", fmt.Sprintf("%v", sample)})
				}
				record(fmt.Sprintf("HasResultsCache/present=%v", plainOK), fs, sample)
			}
		}
	})
	// GetResponseHasEntries: responses = every subset of 5 kinds x 2 NIs (key 1), wants: present / absent / wrong NI / wrong key
	var ents []gent
	for _, k := range []kindT{kNH, kNHG, kV4, kV6, kMPLS} {
		for _, ni := range []string{"DEFAULT", "VRF"} {
			ents = append(ents, gent{k, ni, 1})
		}
	}
	var masks []int
	for m := 0; m < 1<<len(ents); m++ {
		masks = append(masks, m)
	}
	par(masks, func(m int) {
		resp := &spb.GetResponse{}
		var in []gent
		for i, e := range ents {
			if m&(1<<i) != 0 {
				resp.Entry = append(resp.Entry, e.entry())
				in = append(in, e)
			}
		}
		for _, k := range []kindT{kNH, kNHG, kV4, kV6, kMPLS} {
			for _, ni := range []string{"DEFAULT", "VRF", "OTHER"} {
				for _, key := range []uint64{1, 2} {
					w := gent{k, ni, key}
					exp := false
					for _, e := range in {
						if e == w {
							exp = true
						}
					}
					failed, crash := fatal(func(t testing.TB) { chk.GetResponseHasEntries(t, resp, w.want()) })
					sample := map[string]any{"helper": "GetResponseHasEntries", "response": fmt.Sprint(in), "want": w.String()}
					var fs []fail
					switch {
					case crash != "":
						fs = append(fs, fail{"C17/GetResponseHasEntries/panic", fmt.Sprintf("panicked (%s) on %v", crash, sample)})
					case failed && exp:
						fs = append(fs, fail{"C17/GetResponseHasEntries/fails-although-present/" + kindNames[k], fmt.Sprintf("%v", sample)})
					case !failed && !exp:
						fs = append(fs, fail{"C17/GetResponseHasEntries/passes-although-absent/" + kindNames[k], fmt.Sprintf("%v", sample)})
					}
					record(fmt.Sprintf("GetResponseHasEntries/present=%v", exp), fs, sample)
				}
			}
		}
	})
	// ... and a second universe in which one network-instance name extends the other by a digit and the keys are
	// chosen so that name and key concatenate to the same text ("VRF"+11... = "VRF1"+1...): an index keyed by an
	// unseparated rendering of (network instance, key) confuses the two
	type pairT struct {
		k    kindT
		a, b uint64
	}
	pairs := []pairT{{kNH, 11, 1}, {kNHG, 11, 1}, {kV4, 11, 1}, {kV6, 11, 1}, {kMPLS, 1001, 1}}
	var ents2 []gent
	for _, p := range pairs {
		ents2 = append(ents2, gent{p.k, "VRF", p.a}, gent{p.k, "VRF1", p.b})
	}
	var masks2 []int
	for m := 0; m < 1<<len(ents2); m++ {
		masks2 = append(masks2, m)
	}
	par(masks2, func(m int) {
		resp := &spb.GetResponse{}
		var in []gent
		for i, e := range ents2 {
			if m&(1<<i) != 0 {
				resp.Entry = append(resp.Entry, e.entry())
				in = append(in, e)
			}
		}
		for _, p := range pairs {
			for _, w := range []gent{{p.k, "VRF", p.a}, {p.k, "VRF1", p.b}, {p.k, "VRF", p.b}, {p.k, "VRF1", p.a}} {
				exp := false
				for _, e := range in {
					if e == w {
						exp = true
					}
				}
				failed, crash := fatal(func(t testing.TB) { chk.GetResponseHasEntries(t, resp, w.want()) })
				sample := map[string]any{"helper": "GetResponseHasEntries", "response": fmt.Sprint(in), "want": w.String()}
				var fs []fail
				switch {
				case crash != "":
					fs = append(fs, fail{"C17/GetResponseHasEntries/panic", fmt.Sprintf("panicked (%s) on %v", crash, sample)})
				case failed && exp:
					fs = append(fs, fail{"C17/GetResponseHasEntries/fails-although-present/" + kindNames[p.k], fmt.Sprintf("%v", sample)})
				case !failed && !exp:
					fs = append(fs, fail{"C17/GetResponseHasEntries/passes-although-absent/" + kindNames[p.k], fmt.Sprintf("%v", sample)})
				}
				record(fmt.Sprintf("GetResponseHasEntries/colliding-names/present=%v", exp), fs, sample)
			}
		}
	})
	// error helpers
	errCases := errorCases()
	eidx := make([]int, len(errCases))
	for i := range eidx {
		eidx[i] = i
	}
	par(eidx, func(i int) {
		ec := errCases[i]
		for n := 0; n <= 3; n++ {
			for _, send := range []bool{true, false} {
				exp := ec.isClientErr && ((send && len(ec.ce.Send) == n) || (!send && len(ec.ce.Recv) == n))
				if ec.err == nil {
					exp = n == 0
				}
				failed, crash := fatal(func(t testing.TB) {
					if send {
						chk.HasNSendErrors(t, ec.err, n)
					} else {
						chk.HasNRecvErrors(t, ec.err, n)
					}
				})
				name := "HasNRecvErrors"
				if send {
					name = "HasNSendErrors"
				}
				sample := map[string]any{"helper": name, "error": ec.name, "count": n}
				var fs []fail
				switch {
				case crash != "":
					fs = append(fs, fail{"C17/" + name + "/panic", fmt.Sprintf("panicked (%s) on %v", crash, sample)})
				case failed == exp:
					fs = append(fs, fail{fmt.Sprintf("C17/%s/fatal=%v-but-count-matches=%v", name, failed, exp), fmt.Sprintf("%v", sample)})
				}
				record(fmt.Sprintf("%s/matches=%v", name, exp), fs, sample)
			}
		}
		if !ec.isClientErr {
			return
		}
		for _, want := range statusWants() {
			for _, allowU := range []bool{false, true} {
				for _, ignD := range []bool{false, true} {
					exp := false
					for _, e := range ec.ce.Recv {
						s, ok := status.FromError(e)
						if !ok {
							continue
						}
						if allowU && s.Code() == codes.Unimplemented {
							exp = true
						}
						if s.Code() == want.Code() && (want.Message() == "" || s.Message() == want.Message()) && (ignD || proto.Equal(detailsOf(s), detailsOf(want))) {
							exp = true
						}
					}
					orders := [][]chk.ErrorOpt{nil}
					switch {
					case allowU && ignD: // the options are documented as independent: both orders
						orders = [][]chk.ErrorOpt{{chk.AllowUnimplemented(), chk.IgnoreDetails()}, {chk.IgnoreDetails(), chk.AllowUnimplemented()}}
					case allowU:
						orders = [][]chk.ErrorOpt{{chk.AllowUnimplemented()}}
					case ignD:
						orders = [][]chk.ErrorOpt{{chk.IgnoreDetails()}}
					}
					for oi, opts := range orders {
						failed, crash := fatal(func(t testing.TB) { chk.HasRecvClientErrorWithStatus(t, ec.err, want, opts...) })
						sample := map[string]any{"helper": "HasRecvClientErrorWithStatus", "error": ec.name, "want": want.Proto().String(), "allow_unimplemented": allowU, "ignore_details": ignD, "option_order": oi}
						var fs []fail
						switch {
						case crash != "":
							fs = append(fs, fail{"C17/HasRecvClientErrorWithStatus/panic", fmt.Sprintf("panicked (%s) on %v", crash, sample)})
						case failed && exp:
							fs = append(fs, fail{"C17/HasRecvClientErrorWithStatus/fails-although-present", fmt.Sprintf("%v", sample)})
						case !failed && !exp:
							fs = append(fs, fail{"C17/HasRecvClientErrorWithStatus/passes-although-absent", fmt.Sprintf("%v", sample)})
						}
						record(fmt.Sprintf("HasRecvClientErrorWithStatus/present=%v", exp), fs, sample)
					}
				}
			}
		}
	})
	rep.Set("evaluations", evals)
	rep.Set("distinct_nontrivial", evals)
	rep.Set("states", evals)
	rep.Set("transitions", evals)
	rep.Set("traces_validated_against_impl", evals)
	rep.Set("exhaustive", true)
	rep.Set("result_lists", len(lists))
	rep.Set("wants", len(wants))
	rep.Set("distinct_outcomes", outcomes)
	rep.Set("rule", "every (input list, want, option subset) tuple of the stated alphabets is one case, distinct by construction; each is evaluated on the real helper with a fatal-capturing testing.TB and on the reference definition of 'present'")
	rep.Sample(map[string]any{"helper": "HasResult", "results": descList(lists[len(lists)/2]), "want": describeR(wants[3]), "options": "IgnoreOperationID"})
	rep.Sample(map[string]any{"helper": "GetResponseHasEntries", "response": "{nh 1@DEFAULT, v6 1@VRF}", "want": "mpls 1@VRF"})
}

func wantKind(w *client.OpResult) string {
	k := keyOf(w)
	if k == "" {
		if w.Details == nil {
			return "no-details"
		}
		return "empty-details"
	}
	return strings.Split(k, "|")[0]
}

func uniq(s []string) []string {
	var out []string
	for i, x := range s {
		if i == 0 || x != s[i-1] {
			out = append(out, x)
		}
	}
	return out
}

// uniqueKeys: the index keys of the cached checker are unique in res (operation ids, or entry keys per kind).
func uniqueKeys(res []*client.OpResult, o ropts) bool {
	seen := map[string]bool{}
	for _, r := range res {
		k := fmt.Sprintf("id|%d", r.OperationID)
		if o.ignoreID {
			k = keyOf(r)
			if k == "" {
				continue
			}
		}
		if seen[k] {
			return false
		}
		seen[k] = true
	}
	return true
}

func descList(l []*client.OpResult) []string {
	var out []string
	for _, r := range l {
		out = append(out, describeR(r))
	}
	return out
}

func callHasResult(t testing.TB, res []*client.OpResult, want *client.OpResult, o ropts) {
	switch {
	case o.ignoreID && o.includeErr:
		chk.HasResult(t, res, want, chk.IgnoreOperationID(), chk.IncludeServerError())
	case o.ignoreID:
		chk.HasResult(t, res, want, chk.IgnoreOperationID())
	case o.includeErr:
		chk.HasResult(t, res, want, chk.IncludeServerError())
	default:
		chk.HasResult(t, res, want)
	}
}

func callCache(t testing.TB, res, wants []*client.OpResult, o ropts) {
	switch {
	case o.ignoreID && o.includeErr:
		chk.HasResultsCache(t, res, wants, chk.IgnoreOperationID(), chk.IncludeServerError())
	case o.ignoreID:
		chk.HasResultsCache(t, res, wants, chk.IgnoreOperationID())
	case o.includeErr:
		chk.HasResultsCache(t, res, wants, chk.IncludeServerError())
	default:
		chk.HasResultsCache(t, res, wants)
	}
}

type errCase struct {
	name        string
	err         error
	isClientErr bool
	ce          *client.ClientErr
}

func detailsOf(s *status.Status) proto.Message {
	p := s.Proto()
	c := proto.Clone(p)
	c.ProtoReflect().Clear(c.ProtoReflect().Descriptor().Fields().ByName("code"))
	c.ProtoReflect().Clear(c.ProtoReflect().Descriptor().Fields().ByName("message"))
	return c
}

func statusWants() []*status.Status {
	var out []*status.Status
	// (Unknown is what a non-status error converts to: an error that is not a gRPC status never matches a want)
	for _, c := range []codes.Code{codes.FailedPrecondition, codes.Unimplemented, codes.InvalidArgument, codes.Unknown} {
		out = append(out, status.New(c, ""), status.New(c, "msg"))
		d, _ := status.New(c, "").WithDetails(&spb.ModifyRPCErrorDetails{Reason: spb.ModifyRPCErrorDetails_UNSUPPORTED_PARAMS})
		out = append(out, d)
		// message AND details: under IgnoreDetails the message must still be compared
		dm, _ := status.New(c, "msg").WithDetails(&spb.ModifyRPCErrorDetails{Reason: spb.ModifyRPCErrorDetails_UNSUPPORTED_PARAMS})
		out = append(out, dm)
	}
	return out
}

func errorCases() []errCase {
	var out []errCase
	out = append(out, errCase{name: "nil", err: nil})
	out = append(out, errCase{name: "plain error", err: errors.New("x")})
	mk := func(c codes.Code, msg string, det int) error {
		s := status.New(c, msg)
		switch det {
		case 1:
			s, _ = s.WithDetails(&spb.ModifyRPCErrorDetails{Reason: spb.ModifyRPCErrorDetails_UNSUPPORTED_PARAMS})
		case 2: // other details than any want carries
			s, _ = s.WithDetails(&spb.ModifyRPCErrorDetails{Reason: spb.ModifyRPCErrorDetails_MODIFY_NOT_ALLOWED})
		}
		return s.Err()
	}
	var singles []error
	var names []string
	for _, c := range []codes.Code{codes.FailedPrecondition, codes.Unimplemented, codes.InvalidArgument, codes.Unknown} {
		for _, msg := range []string{"", "msg", "other"} {
			for _, det := range []int{0, 1, 2} {
				singles = append(singles, mk(c, msg, det))
				names = append(names, fmt.Sprintf("%s/%q/details=%v", c, msg, det))
			}
		}
	}
	singles = append(singles, errors.New("not a status"), errors.New("msg"), fmt.Errorf("wrapped: %w", errors.New("msg")))
	names = append(names, "non-status", "non-status 'msg'", "wrapped non-status")
	out = append(out, errCase{name: "ClientErr{}", err: &client.ClientErr{}, isClientErr: true, ce: &client.ClientErr{}})
	for i, e := range singles {
		ce := &client.ClientErr{Recv: []error{e}}
		out = append(out, errCase{name: "recv[" + names[i] + "]", err: ce, isClientErr: true, ce: ce})
		ce2 := &client.ClientErr{Send: []error{e}}
		out = append(out, errCase{name: "send[" + names[i] + "]", err: ce2, isClientErr: true, ce: ce2})
	}
	for i := 0; i < len(singles); i += 3 {
		for j := 1; j < len(singles); j += 4 {
			ce := &client.ClientErr{Recv: []error{singles[i], singles[j]}, Send: []error{singles[j]}}
			out = append(out, errCase{name: "recv[" + names[i] + "," + names[j] + "]+send[1]", err: ce, isClientErr: true, ce: ce})
		}
	}
	return out
}

// guardRep receives a violation when a case panics (see report.Guard).
var guardRep *report.Report

func par(items []int, f func(int)) {
	var wg sync.WaitGroup
	ch := make(chan int)
	for w := 0; w < 16; w++ {
		wg.Add(1)
		go func() {
			defer wg.Done()
			for i := range ch {
				guardRep.Guard(fmt.Sprintf("case %d", i), map[string]any{"case_index": i}, func() { f(i) })
			}
		}()
	}
	for _, i := range items {
		ch <- i
	}
	close(ch)
	wg.Wait()
}
