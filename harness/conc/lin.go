package conc

import (
	"context"
	"fmt"
	"io"
	"os"
	"runtime/debug"
	"sort"
	"strings"
	"time"

	"google.golang.org/grpc/status"
	"google.golang.org/protobuf/proto"

	"github.com/openconfig/gribigo/server"

	"verif/harness/ribhist"
	"verif/harness/ribx"
	"verif/mc"
	"verif/report"
	"verif/rt"
	"verif/rt/vsync"
	"verif/wire"

	spb "github.com/openconfig/gribi/v1/proto/service"
)

// Concurrent sessions against the sequential server (a tier of C06, also serving C04 / C05 / C11).
//
// Two sessions run small programs - announce an election id, send a batch of operations (with forward references,
// so that operations are held and resolved later), leave - as two threads on the real handler functions. The oracle
// needs no hand-written model: the REAL server, driven sequentially, is the reference. Every interleaving of the two
// programs at the granularity of single steps (one announcement, one operation, one departure) is executed on a
// fresh server, which gives the set of sequentially possible outcomes (what each session was answered, in order; the
// installed entries; the held operations; the election state). Every concurrent execution within the deviation
// bound must end in one of them. An outcome outside the set means that some operation was not applied atomically
// with respect to the other session's steps: a result on the wrong stream, an operation answered twice or never, an
// entry installed without acknowledgement or acknowledged without being installed, an operation of a superseded
// session taking effect - i.e. C06, C04, C01/C11 as seen by two real clients (both number their operations 1,2,3...).

type linOp struct {
	name  string
	ni    string
	op    spb.AFTOperation_Operation
	entry proto.Message
}

type linStep struct {
	kind byte // 'P' session parameters (first message), 'E' announce, 'M' batch, 'X' leave, 'G' Get(all, ALL)
	id   ID
	ops  []linOp
	fib  bool // 'P': RIB_AND_FIB_ACK instead of RIB_ACK
}

type linProg struct {
	name  string
	steps []linStep
}

func (p linProg) atoms() int {
	n := 0
	for _, s := range p.steps {
		if s.kind == 'M' {
			n += len(s.ops)
		} else {
			n++
		}
	}
	return n
}

// linSession is the per-session state of a run (sequential or concurrent).
type linSession struct {
	sid    string
	cur    ID
	nextID uint64
	obs    []string
	dead   bool // the RPC ended (error or departure): the rest of the program is not executed
}

func (ls *linSession) election(s *server.Server, id ID) {
	resp, err := s.VerifRunElection(ls.sid, id.Proto())
	if err != nil {
		ls.obs = append(ls.obs, fmt.Sprintf("E%v->error", id))
		ls.end(s)
		return
	}
	ls.cur = id
	ls.obs = append(ls.obs, fmt.Sprintf("E%v->(%d,%d)", id, resp.GetElectionId().GetHigh(), resp.GetElectionId().GetLow()))
}

func (ls *linSession) end(s *server.Server) {
	if !ls.dead {
		ls.dead = true
		s.VerifDeleteClient(ls.sid)
	}
}

// modify sends the operations in ONE request and records the results in the order they were written to the stream.
func (ls *linSession) modify(s *server.Server, ops []linOp) {
	var msgs []*spb.AFTOperation
	for _, o := range ops {
		ls.nextID++
		m := ribx.Op(ls.nextID, o.ni, o.op, proto.Clone(o.entry))
		m.ElectionId = ls.cur.Proto()
		msgs = append(msgs, m)
	}
	resCh := make(chan *spb.ModifyResponse, 64)
	errCh := make(chan error, 64)
	s.VerifDoModify(ls.sid, msgs, resCh, errCh)
	for {
		sel := rt.NewSelect(true)
		c := rt.SelRecv(sel, resCh)
		if sel.Wait() != 0 {
			break
		}
		for _, r := range c.Val().GetResult() {
			ls.obs = append(ls.obs, fmt.Sprintf("%d:%s", r.GetId(), r.GetStatus()))
		}
	}
	failed := false
	for {
		sel := rt.NewSelect(true)
		c := rt.SelRecv(sel, errCh)
		if sel.Wait() != 0 {
			break
		}
		_ = c
		failed = true
	}
	if failed {
		ls.obs = append(ls.obs, "rpc-error")
		ls.end(s)
	}
}

func linOutcome(s *server.Server, ss []*linSession) string {
	m, err := ribx.Snapshot(s.VerifRIB())
	ribc := "ERR"
	if err == nil {
		ribc = m.Canon()
	}
	master, id := s.VerifElection()
	var sb strings.Builder
	for _, x := range ss {
		fmt.Fprintf(&sb, "%s=%v ", x.sid, x.obs)
	}
	return fmt.Sprintf("%s| election=%s(%d,%d) | held=%s | rib=%s", sb.String(), master, id.GetHigh(), id.GetLow(), ribx.PendingCanon(s.VerifRIB()), ribc)
}

var linSIDs = []string{"a", "b", "c"}

func linServer(n int, fib bool, progs []linProg) *server.Server {
	s := newServer()
	if len(progs) > 0 && len(progs[0].steps) > 0 && progs[0].steps[0].kind == 'P' {
		// the programs negotiate themselves: the sessions only exist
		for _, sid := range linSIDs[:n] {
			if err := s.VerifNewClient(sid); err != nil {
				panic(err)
			}
		}
		return s
	}
	p := params
	if fib {
		p = proto.Clone(params).(*spb.SessionParameters)
		p.AckType = spb.SessionParameters_RIB_AND_FIB_ACK
	}
	for _, sid := range linSIDs[:n] {
		if err := s.VerifNewClient(sid); err != nil {
			panic(err)
		}
		if _, err := s.VerifCheckParams(sid, p, false); err != nil {
			panic(err)
		}
		if err := s.VerifUpdateParams(sid, p); err != nil {
			panic(err)
		}
	}
	return s
}

// get runs a Get over all instances and tables through the in-memory transport (real Get handler and producer
// goroutine) and records the keys it returned: every instance is read under its lock, so the answer is the content
// at ONE instant of the sequential order (the programs of this tier use one instance).
func (ls *linSession) get(s *server.Server) {
	st, err := wire.New(s).Get(context.Background(), &spb.GetRequest{NetworkInstance: &spb.GetRequest_All{All: &spb.Empty{}}, Aft: spb.AFTType_ALL})
	if err != nil {
		ls.obs = append(ls.obs, "G->error")
		return
	}
	var keys []string
	for {
		r, err := st.Recv()
		if err == io.EOF {
			break
		}
		if err != nil {
			ls.obs = append(ls.obs, "G->error")
			return
		}
		for _, e := range r.GetEntry() {
			switch t := e.GetEntry().(type) {
			case *spb.AFTEntry_Ipv4:
				keys = append(keys, "v4:"+t.Ipv4.GetPrefix())
			case *spb.AFTEntry_Ipv6:
				keys = append(keys, "v6:"+t.Ipv6.GetPrefix())
			case *spb.AFTEntry_Mpls:
				keys = append(keys, fmt.Sprint("mpls:", t.Mpls.GetLabelUint64()))
			case *spb.AFTEntry_NextHopGroup:
				keys = append(keys, fmt.Sprint("nhg:", t.NextHopGroup.GetId()))
			case *spb.AFTEntry_NextHop:
				keys = append(keys, fmt.Sprint("nh:", t.NextHop.GetIndex()))
			}
		}
	}
	sort.Strings(keys)
	ls.obs = append(ls.obs, "G{"+strings.Join(keys, ",")+"}")
}

// negotiate sends the session parameters as the Modify handler processes them.
func (ls *linSession) negotiate(s *server.Server, fib bool) {
	p := proto.Clone(params).(*spb.SessionParameters)
	if fib {
		p.AckType = spb.SessionParameters_RIB_AND_FIB_ACK
	}
	if _, err := s.VerifCheckParams(ls.sid, p, false); err != nil {
		ls.obs = append(ls.obs, "P->"+status.Code(err).String())
		ls.end(s)
		return
	}
	if err := s.VerifUpdateParams(ls.sid, p); err != nil {
		ls.obs = append(ls.obs, "P->"+status.Code(err).String())
		ls.end(s)
		return
	}
	ls.obs = append(ls.obs, "P->OK")
}

func (ls *linSession) step(s *server.Server, st linStep, from, to int) {
	switch st.kind {
	case 'P':
		ls.negotiate(s, st.fib)
	case 'G':
		ls.get(s)
	case 'E':
		ls.election(s, st.id)
	case 'X':
		ls.end(s)
	case 'M':
		ls.modify(s, st.ops[from:to])
	}
}

// linSequential returns every outcome of the programs interleaved at step granularity on a sequential server.
func linSequential(progs []linProg, fib bool, pre [][]linStep) map[string]bool {
	type atom struct {
		sess int
		step int
		op   int // index into the batch, -1 for E / X
	}
	flat := make([][]atom, len(progs))
	for k, p := range progs {
		for i, st := range p.steps {
			if st.kind == 'M' {
				for j := range st.ops {
					flat[k] = append(flat[k], atom{k, i, j})
				}
			} else {
				flat[k] = append(flat[k], atom{k, i, -1})
			}
		}
	}
	out := map[string]bool{}
	var order []atom
	pos := make([]int, len(progs))
	run := func() {
		s := linServer(len(progs), fib, progs)
		var ss []*linSession
		for k := range progs {
			ss = append(ss, &linSession{sid: linSIDs[k]})
			if k < len(pre) {
				for _, st := range pre[k] {
					ss[k].step(s, st, 0, len(st.ops))
				}
			}
		}
		for _, at := range order {
			ls := ss[at.sess]
			if ls.dead {
				continue
			}
			st := progs[at.sess].steps[at.step]
			if st.kind == 'M' {
				ls.step(s, st, at.op, at.op+1)
			} else {
				ls.step(s, st, 0, 0)
			}
		}
		out[linOutcome(s, ss)] = true
	}
	var rec func()
	rec = func() {
		done := true
		for k := range progs {
			if pos[k] < len(flat[k]) {
				done = false
				order = append(order, flat[k][pos[k]])
				pos[k]++
				rec()
				pos[k]--
				order = order[:len(order)-1]
			}
		}
		if done {
			run()
		}
	}
	rec()
	return out
}

func linBody(progs []linProg, fib bool, pre [][]linStep) func() {
	return func() {
		s := linServer(len(progs), fib, progs)
		var ss []*linSession
		var wg vsync.WaitGroup
		wg.Add(len(progs))
		hasReader := false
		for _, p := range progs {
			for _, st := range p.steps {
				hasReader = hasReader || st.kind == 'G'
			}
		}
		for k := range progs {
			ls, p := &linSession{sid: linSIDs[k]}, progs[k]
			ss = append(ss, ls)
			if k < len(pre) {
				for _, st := range pre[k] {
					ls.step(s, st, 0, len(st.ops))
				}
			}
			// with a reader among the sessions the writers are background threads: by default the Get pipeline (client,
			// handler, producer goroutine) runs undisturbed, and a deviation puts a writer's steps at any point inside it
			prio := 0
			if hasReader && (len(p.steps) == 0 || p.steps[0].kind != 'G') {
				prio = 1
			}
			rt.GoPrio("session-"+ls.sid, prio, func() {
				defer wg.Done()
				for _, st := range p.steps {
					if ls.dead {
						return
					}
					ls.step(s, st, 0, len(st.ops))
				}
			})
		}
		wg.Wait()
		rt.Quiesce()
		rt.Emit("lin-outcome", linOutcome(s, ss))
	}
}

func linPrograms() (as, bs, cs []linProg) {
	nh1, nh2 := ribx.NHEntry(1, "1.1.1.1"), ribx.NHEntry(2, "2.2.2.2")
	g1, g2 := ribx.NHGEntry(1, 0, [2]uint64{1, 1}), ribx.NHGEntry(2, 0, [2]uint64{2, 1})
	p4 := ribx.V4Entry("10.0.0.0/8", 1, "", nil)
	q6 := ribx.V6Entry("2001:db8::/32", 2, "", nil)
	add := func(name string, e proto.Message) linOp { return linOp{name, D, spb.AFTOperation_ADD, e} }
	del := func(name string, e proto.Message) linOp { return linOp{name, D, spb.AFTOperation_DELETE, e} }
	E := func(lo uint64) linStep { return linStep{kind: 'E', id: ID{Lo: lo}} }
	M := func(ops ...linOp) linStep { return linStep{kind: 'M', ops: ops} }
	X := linStep{kind: 'X'}
	as = []linProg{
		{"a: announce 1; [ADD v4->g1, ADD g1{nh1}, ADD nh1]", []linStep{E(1), M(add("v4", p4), add("g1", g1), add("nh1", nh1))}},
		{"a: announce 1; [ADD nh1, ADD g1]; [ADD v4->g1]", []linStep{E(1), M(add("nh1", nh1), add("g1", g1)), M(add("v4", p4))}},
		{"a: announce 1; [ADD v4->g1, ADD g1{nh1}]; [ADD nh1]; leave", []linStep{E(1), M(add("v4", p4), add("g1", g1)), M(add("nh1", nh1)), X}},
		{"a: announce 1; [ADD v4->g1]; announce 3; [ADD g1{nh1}, ADD nh1]", []linStep{E(1), M(add("v4", p4)), E(3), M(add("g1", g1), add("nh1", nh1))}},
	}
	bs = []linProg{
		{"b: announce 2; [ADD v6->g2, ADD g2{nh2}, ADD nh2]", []linStep{E(2), M(add("v6", q6), add("g2", g2), add("nh2", nh2))}},
		{"b: announce 2; [ADD nh2, ADD g2, ADD v6->g2]", []linStep{E(2), M(add("nh2", nh2), add("g2", g2), add("v6", q6))}},
		{"b: announce 1 (equal id); [ADD v6->g2, ADD g2{nh2}, ADD nh2]", []linStep{E(1), M(add("v6", q6), add("g2", g2), add("nh2", nh2))}},
		{"b: announce 2; [ADD v6->g2, ADD g2{nh2}]; leave", []linStep{E(2), M(add("v6", q6), add("g2", g2)), X}},
		{"b: announce 2; [DELETE nh1]; [ADD nh1 (other address), ADD g2{nh2}]", []linStep{E(2), M(del("nh1", nh1)), M(add("nh1'", ribx.NHEntry(1, "9.9.9.9")), add("g2", g2))}},
	}
	as = append(as,
		linProg{"a: announce 1; [ADD nh1, ADD g1, ADD v4]; [DELETE v4, DELETE g1, DELETE nh1]", []linStep{E(1), M(add("nh1", nh1), add("g1", g1), add("v4", p4)), M(del("v4", p4), del("g1", g1), del("nh1", nh1))}},
		linProg{"a: announce 1; [ADD v4->g1]; [DELETE v4]; [ADD g1{nh1}, ADD nh1]", []linStep{E(1), M(add("v4", p4)), M(del("v4", p4)), M(add("g1", g1), add("nh1", nh1))}},
	)
	rep := func(name string, e proto.Message) linOp { return linOp{name, D, spb.AFTOperation_REPLACE, e} }
	bs = append(bs,
		linProg{"b: announce 2; [ADD v6->g2, ADD g2{nh2}]; announce 4; [ADD nh2]", []linStep{E(2), M(add("v6", q6), add("g2", g2)), E(4), M(add("nh2", nh2))}},
		linProg{"b: announce 2; [REPLACE nh1 (other address)]; [ADD nh2, ADD g2{nh2}]", []linStep{E(2), M(rep("nh1'", ribx.NHEntry(1, "9.9.9.9"))), M(add("nh2", nh2), add("g2", g2))}},
	)
	cs = []linProg{
		{"c: announce 5", []linStep{E(5)}},
		{"c: announce 2; leave", []linStep{E(2), X}},
	}
	return
}

// linCase is one explored combination.
type linCase struct {
	progs []linProg
	fib   bool
	// pre[k] are steps of session k that are executed before the concurrent phase starts (sequentially, in the
	// reference and in the concurrent runs alike): the start state of the case
	pre [][]linStep
}

func linCases() map[string]linCase {
	as, bs, cs := linPrograms()
	out := map[string]linCase{}
	for i := range as {
		for j := range bs {
			out[fmt.Sprintf("lin/%d/%d", i, j)] = linCase{progs: []linProg{as[i], bs[j]}}
		}
	}
	// FIB acknowledgements negotiated: the programs with held operations
	for _, ij := range [][2]int{{0, 0}, {2, 3}, {3, 1}, {0, 5}} {
		out[fmt.Sprintf("lin/%d/%d/fib", ij[0], ij[1])] = linCase{progs: []linProg{as[ij[0]], bs[ij[1]]}, fib: true}
	}
	// a third session that only takes part in the election
	for _, ijk := range [][3]int{{0, 0, 0}, {2, 3, 1}, {3, 0, 1}, {1, 5, 0}} {
		out[fmt.Sprintf("lin/%d/%d/c%d", ijk[0], ijk[1], ijk[2])] = linCase{progs: []linProg{as[ijk[0]], bs[ijk[1]], cs[ijk[2]]}}
	}
	// a reader: Get(all, ALL) twice while the other session builds a chain and removes it again, one entry per
	// operation - every answer must be the content at one instant of some sequential order. (Not with forward
	// references: one operation then installs several entries one after the other, and a Get may legitimately see
	// the next-hop without the group that the same call is about to resolve - tried, flagged, removed: the
	// granularity of the sequential reference is the operation, the granularity of installation is the entry.)
	reader := linProg{"b: Get(all, ALL); Get(all, ALL)", []linStep{{kind: 'G'}, {kind: 'G'}}}
	for _, i := range []int{1, 4} {
		out[fmt.Sprintf("lin/%d/get", i)] = linCase{progs: []linProg{as[i], reader}}
	}
	// ... and from a state in which two chains are installed: the writer removes one of them while the reader reads
	chain := as[4]
	out["lin/chain-delete/get"] = linCase{progs: []linProg{{"a (two chains installed): [DELETE v4, DELETE g1, DELETE nh1]", chain.steps[2:]}, reader},
		pre: [][]linStep{append(append([]linStep{}, chain.steps[:2]...), bs[1].steps[1])}}
	// ... and the writer re-ADDs an installed entry (an implicit replace, with and without metadata): the entry is
	// installed before, during and after - no Get may miss it
	readd := linProg{"a (chain installed): [ADD v4 again with metadata]; [ADD v4 again without]", []linStep{
		{kind: 'M', ops: []linOp{{"v4 meta", D, spb.AFTOperation_ADD, ribx.V4Entry("10.0.0.0/8", 1, "", []byte{7})}}},
		{kind: 'M', ops: []linOp{{"v4", D, spb.AFTOperation_ADD, ribx.V4Entry("10.0.0.0/8", 1, "", nil)}}}}}
	out["lin/readd/get"] = linCase{progs: []linProg{readd, reader}, pre: [][]linStep{chain.steps[:2]}}
	// (Sessions that NEGOTIATE at the same time are deliberately not part of this tier: the reference server refuses
	// session parameters while any other live session has not negotiated yet - which the property leaves open, see
	// the C09 oracle - so two sessions that open and negotiate simultaneously can both be refused, an outcome that no
	// sequential order produces and that violates nothing. Tried, seen, removed: it would be a false alarm.)
	return out
}

func linParts(tier string) []string {
	var out []string
	for k := range linCases() {
		out = append(out, k)
	}
	sort.Strings(out)
	return out
}

// RunC04Concurrent runs the part of the concurrent-sessions tier in which the primary role is contested by three
// sessions (and two pairs with a hand-over in mid-request) under the C04 command: only the elected primary's
// operations may take effect also when elections and operations of different sessions overlap.
func RunC04Concurrent(rep *report.Report, tier string) {
	var parts []string
	for _, k := range linParts(tier) {
		if strings.Count(k, "/") == 3 && strings.Contains(k, "/c") || k == "lin/0/0" || k == "lin/3/2" {
			parts = append(parts, k)
		}
	}
	rep.Shards(parts, 16, nil)
}

// RunC07Concurrent runs the reader cases of the concurrent-sessions tier under the C07 command: what a Get returns
// while a writer works must be the installed entries of ONE instant of some sequential order.
func RunC07Concurrent(rep *report.Report, tier string) {
	var parts []string
	for _, k := range linParts(tier) {
		if strings.HasSuffix(k, "/get") {
			parts = append(parts, k)
		}
	}
	rep.Shards(parts, 16, nil)
}

// RunC06Concurrent runs the concurrent-sessions tier (one shard process per pair of programs).
func RunC06Concurrent(rep *report.Report, tier string) {
	rep.Shards(linParts(tier), 16, nil)
	rep.Sample(map[string]any{"tier": "concurrent-sessions", "session_a": "announce 1; [ADD v4->g1, ADD g1{nh1}, ADD nh1]", "session_b": "announce 2; [ADD v6->g2, ADD g2{nh2}, ADD nh2]", "oracle": "outcome must be one of the outcomes of the step-wise interleavings on a sequential server"})
}

// ChildC06Concurrent explores one pair of programs.
func ChildC06Concurrent(rep *report.Report, tier, part string) {
	lc, ok := linCases()[part]
	if !ok {
		rep.EngineError("unknown part %s", part)
		return
	}
	t0 := time.Now()
	var seq map[string]bool
	crashed := false
	func() {
		// the sequential reference runs the real code natively: a panic there (or the lock-leak watch of the native
		// shims firing) is a verdict about the code under test, not an engine failure
		defer func() {
			if r := recover(); r != nil {
				crashed = true
				rep.Violate("crash/"+crashSite(string(debug.Stack())), fmt.Sprintf("the server panicked while the programs were run SEQUENTIALLY (reference of the concurrent-sessions tier): %v", r), map[string]any{"scenario": "concurrent-sessions/" + part[4:]})
			}
		}()
		seq = linSequential(lc.progs, lc.fib, lc.pre)
	}()
	if crashed {
		return
	}
	seqT := time.Since(t0)
	var pnames []string
	for _, p := range lc.progs {
		pnames = append(pnames, p.name)
	}
	pdesc := strings.Join(pnames, " || ")
	if lc.fib {
		pdesc += " (FIB acknowledgements negotiated)"
	}
	bound := 2
	if tier == "thorough" {
		bound = 4
		if len(lc.progs) > 2 {
			bound = 3
		}
	}
	unbounded := os.Getenv("VERIF_LIN_UNBOUNDED") != ""
	dl := ribhist.Budget(tier, 90*time.Second, 20*time.Minute)
	name := "concurrent-sessions/" + part[4:]
	res := mc.DFS(mc.SchedConfig{Name: name, Body: linBody(lc.progs, lc.fib, lc.pre), Bound: bound, Unbounded: unbounded, SwitchCost: 1, Deadline: dl,
		Outcome: func(x *rt.Exec) string {
			for _, e := range x.Events {
				if e.Label == "lin-outcome" {
					return e.Val.(string)
				}
			}
			return fmt.Sprintf("crash=%v deadlock=%v", x.Crash != "", x.Deadlock)
		},
		Check: func(x *rt.Exec) []mc.Fail {
			if fs := liveness(x); len(fs) > 0 {
				return fs
			}
			for _, e := range x.Events {
				if e.Label != "lin-outcome" {
					continue
				}
				if o := e.Val.(string); !seq[o] {
					var near []string
					for k := range seq {
						near = append(near, k)
					}
					sort.Strings(near)
					if len(near) > 3 {
						near = near[:3]
					}
					return []mc.Fail{{Sig: "C06/concurrent-sessions-outcome-not-sequentially-explainable", What: fmt.Sprintf("%s: the concurrent execution ended in {%s}, which none of the %d outcomes of the step-wise interleavings of the programs on a sequential server (e.g. %s)", pdesc, o, len(seq), strings.Join(near, " ;; "))}}
				}
			}
			return nil
		}})
	if res.EngineError != "" {
		rep.EngineError("%s: %s", name, res.EngineError)
	}
	if res.CacheDiff != "" {
		rep.Set("cache_selftest:"+name, res.CacheDiff)
	}
	reached := 0
	for o := range res.Outcomes {
		if seq[o] {
			reached++
		}
	}
	rep.Add("pruned_at_visited_states", res.Pruned)
	rep.Add("states", res.Execs)
	rep.Add("transitions", res.Steps)
	rep.Add("traces_validated_against_impl", res.Execs)
	rep.Add("evaluations", res.Execs)
	rep.Add("distinct_nontrivial", len(res.Outcomes))
	rep.And("exhaustive", res.Exhaustive)
	rep.Set("scenario:"+name, map[string]any{"sessions": pdesc, "sequential_interleavings_outcomes": len(seq), "sequential_reference_seconds": seqT.Seconds(),
		"executions": res.Execs, "bound_target": bound, "bound_completed": res.BoundCompleted, "executions_per_bound": res.ExecsPerBound,
		"distinct_outcomes": len(res.Outcomes), "sequential_outcomes_reached_concurrently": reached, "bounding": "deviations from the default scheduler"})
	for _, f := range res.Fails {
		rep.Violate(f.Sig, f.What, map[string]any{"scenario": name, "schedule": f.History})
	}
}
