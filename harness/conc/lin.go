package conc

import (
	"fmt"
	"os"
	"sort"
	"strings"
	"time"

	"google.golang.org/protobuf/proto"

	"github.com/openconfig/gribigo/server"

	"verif/harness/ribhist"
	"verif/harness/ribx"
	"verif/mc"
	"verif/report"
	"verif/rt"
	"verif/rt/vsync"

	spb "github.com/openconfig/gribi/v1/proto/service"
)

// Concurrent sessions against the sequential server (a tier of C06, also serving C04 / C05 / C11).
//
// Two sessions run small programs - announce an election id, send a batch of operations (with forward references,
// so that operations are held and resolved later), leave - as two threads on the real handler functions. The oracle
// needs no hand-written model: the REAL server, driven sequentially, is the reference. Every interleaving of the two
// programs at the granularity of single steps (one announcement, one operation, one departure) is executed on a
// fresh server, which gives the set of sequentially possible outcomes (what each session was answered, in order; the
// installed entries; the held operations; the election state). Every concurrent execution within the deviation
// bound must end in one of them. An outcome outside the set means that some operation was not applied atomically
// with respect to the other session's steps: a result on the wrong stream, an operation answered twice or never, an
// entry installed without acknowledgement or acknowledged without being installed, an operation of a superseded
// session taking effect - i.e. C06, C04, C01/C11 as seen by two real clients (both number their operations 1,2,3...).

type linOp struct {
	name  string
	ni    string
	op    spb.AFTOperation_Operation
	entry proto.Message
}

type linStep struct {
	kind byte // 'E' announce, 'M' batch, 'X' leave
	id   ID
	ops  []linOp
}

type linProg struct {
	name  string
	steps []linStep
}

func (p linProg) atoms() int {
	n := 0
	for _, s := range p.steps {
		if s.kind == 'M' {
			n += len(s.ops)
		} else {
			n++
		}
	}
	return n
}

// linSession is the per-session state of a run (sequential or concurrent).
type linSession struct {
	sid    string
	cur    ID
	nextID uint64
	obs    []string
	dead   bool // the RPC ended (error or departure): the rest of the program is not executed
}

func (ls *linSession) election(s *server.Server, id ID) {
	resp, err := s.VerifRunElection(ls.sid, id.Proto())
	if err != nil {
		ls.obs = append(ls.obs, fmt.Sprintf("E%v->error", id))
		ls.end(s)
		return
	}
	ls.cur = id
	ls.obs = append(ls.obs, fmt.Sprintf("E%v->(%d,%d)", id, resp.GetElectionId().GetHigh(), resp.GetElectionId().GetLow()))
}

func (ls *linSession) end(s *server.Server) {
	if !ls.dead {
		ls.dead = true
		s.VerifDeleteClient(ls.sid)
	}
}

// modify sends the operations in ONE request and records the results in the order they were written to the stream.
func (ls *linSession) modify(s *server.Server, ops []linOp) {
	var msgs []*spb.AFTOperation
	for _, o := range ops {
		ls.nextID++
		m := ribx.Op(ls.nextID, o.ni, o.op, proto.Clone(o.entry))
		m.ElectionId = ls.cur.Proto()
		msgs = append(msgs, m)
	}
	resCh := make(chan *spb.ModifyResponse, 64)
	errCh := make(chan error, 64)
	s.VerifDoModify(ls.sid, msgs, resCh, errCh)
	for {
		sel := rt.NewSelect(true)
		c := rt.SelRecv(sel, resCh)
		if sel.Wait() != 0 {
			break
		}
		for _, r := range c.Val().GetResult() {
			ls.obs = append(ls.obs, fmt.Sprintf("%d:%s", r.GetId(), r.GetStatus()))
		}
	}
	failed := false
	for {
		sel := rt.NewSelect(true)
		c := rt.SelRecv(sel, errCh)
		if sel.Wait() != 0 {
			break
		}
		_ = c
		failed = true
	}
	if failed {
		ls.obs = append(ls.obs, "rpc-error")
		ls.end(s)
	}
}

func linOutcome(s *server.Server, a, b *linSession) string {
	m, err := ribx.Snapshot(s.VerifRIB())
	ribc := "ERR"
	if err == nil {
		ribc = m.Canon()
	}
	master, id := s.VerifElection()
	return fmt.Sprintf("a=%v b=%v | election=%s(%d,%d) | held=%s | rib=%s", a.obs, b.obs, master, id.GetHigh(), id.GetLow(), ribx.PendingCanon(s.VerifRIB()), ribc)
}

func linServer() *server.Server {
	s := newServer()
	for _, sid := range []string{"a", "b"} {
		if err := negotiate(s, sid); err != nil {
			panic(err)
		}
	}
	return s
}

// linSequential returns every outcome of the two programs interleaved at step granularity on a sequential server.
func linSequential(pa, pb linProg) map[string]bool {
	type atom struct {
		sess byte
		step int
		op   int // index into the batch, -1 for E / X
	}
	flat := func(sess byte, p linProg) []atom {
		var out []atom
		for i, st := range p.steps {
			if st.kind == 'M' {
				for j := range st.ops {
					out = append(out, atom{sess, i, j})
				}
			} else {
				out = append(out, atom{sess, i, -1})
			}
		}
		return out
	}
	fa, fb := flat('a', pa), flat('b', pb)
	out := map[string]bool{}
	var order []atom
	var rec func(i, j int)
	run := func() {
		s := linServer()
		sa, sb := &linSession{sid: "a"}, &linSession{sid: "b"}
		for _, at := range order {
			ls, p := sa, pa
			if at.sess == 'b' {
				ls, p = sb, pb
			}
			if ls.dead {
				continue
			}
			st := p.steps[at.step]
			switch st.kind {
			case 'E':
				ls.election(s, st.id)
			case 'X':
				ls.end(s)
			case 'M':
				ls.modify(s, st.ops[at.op:at.op+1])
			}
		}
		out[linOutcome(s, sa, sb)] = true
	}
	rec = func(i, j int) {
		if i == len(fa) && j == len(fb) {
			run()
			return
		}
		if i < len(fa) {
			order = append(order, fa[i])
			rec(i+1, j)
			order = order[:len(order)-1]
		}
		if j < len(fb) {
			order = append(order, fb[j])
			rec(i, j+1)
			order = order[:len(order)-1]
		}
	}
	rec(0, 0)
	return out
}

func linBody(pa, pb linProg) func() {
	return func() {
		s := linServer()
		sa, sb := &linSession{sid: "a"}, &linSession{sid: "b"}
		var wg vsync.WaitGroup
		wg.Add(2)
		for _, x := range []struct {
			ls *linSession
			p  linProg
		}{{sa, pa}, {sb, pb}} {
			x := x
			rt.Go("session-"+x.ls.sid, func() {
				defer wg.Done()
				for _, st := range x.p.steps {
					if x.ls.dead {
						return
					}
					switch st.kind {
					case 'E':
						x.ls.election(s, st.id)
					case 'X':
						x.ls.end(s)
					case 'M':
						x.ls.modify(s, st.ops)
					}
				}
			})
		}
		wg.Wait()
		rt.Quiesce()
		rt.Emit("lin-outcome", linOutcome(s, sa, sb))
	}
}

func linPrograms() (as, bs []linProg) {
	nh1, nh2 := ribx.NHEntry(1, "1.1.1.1"), ribx.NHEntry(2, "2.2.2.2")
	g1, g2 := ribx.NHGEntry(1, 0, [2]uint64{1, 1}), ribx.NHGEntry(2, 0, [2]uint64{2, 1})
	p4 := ribx.V4Entry("10.0.0.0/8", 1, "", nil)
	q6 := ribx.V6Entry("2001:db8::/32", 2, "", nil)
	add := func(name string, e proto.Message) linOp { return linOp{name, D, spb.AFTOperation_ADD, e} }
	del := func(name string, e proto.Message) linOp { return linOp{name, D, spb.AFTOperation_DELETE, e} }
	E := func(lo uint64) linStep { return linStep{kind: 'E', id: ID{Lo: lo}} }
	M := func(ops ...linOp) linStep { return linStep{kind: 'M', ops: ops} }
	X := linStep{kind: 'X'}
	as = []linProg{
		{"a: announce 1; [ADD v4->g1, ADD g1{nh1}, ADD nh1]", []linStep{E(1), M(add("v4", p4), add("g1", g1), add("nh1", nh1))}},
		{"a: announce 1; [ADD nh1, ADD g1]; [ADD v4->g1]", []linStep{E(1), M(add("nh1", nh1), add("g1", g1)), M(add("v4", p4))}},
		{"a: announce 1; [ADD v4->g1, ADD g1{nh1}]; [ADD nh1]; leave", []linStep{E(1), M(add("v4", p4), add("g1", g1)), M(add("nh1", nh1)), X}},
		{"a: announce 1; [ADD v4->g1]; announce 3; [ADD g1{nh1}, ADD nh1]", []linStep{E(1), M(add("v4", p4)), E(3), M(add("g1", g1), add("nh1", nh1))}},
	}
	bs = []linProg{
		{"b: announce 2; [ADD v6->g2, ADD g2{nh2}, ADD nh2]", []linStep{E(2), M(add("v6", q6), add("g2", g2), add("nh2", nh2))}},
		{"b: announce 2; [ADD nh2, ADD g2, ADD v6->g2]", []linStep{E(2), M(add("nh2", nh2), add("g2", g2), add("v6", q6))}},
		{"b: announce 1 (equal id); [ADD v6->g2, ADD g2{nh2}, ADD nh2]", []linStep{E(1), M(add("v6", q6), add("g2", g2), add("nh2", nh2))}},
		{"b: announce 2; [ADD v6->g2, ADD g2{nh2}]; leave", []linStep{E(2), M(add("v6", q6), add("g2", g2)), X}},
		{"b: announce 2; [DELETE nh1]; [ADD nh1 (other address), ADD g2{nh2}]", []linStep{E(2), M(del("nh1", nh1)), M(add("nh1'", ribx.NHEntry(1, "9.9.9.9")), add("g2", g2))}},
	}
	return
}

func linParts(tier string) []string {
	as, bs := linPrograms()
	var out []string
	for i := range as {
		for j := range bs {
			out = append(out, fmt.Sprintf("lin/%d/%d", i, j))
		}
	}
	return out
}

// RunC06Concurrent runs the concurrent-sessions tier (one shard process per pair of programs).
func RunC06Concurrent(rep *report.Report, tier string) {
	rep.Shards(linParts(tier), 16, nil)
	rep.Sample(map[string]any{"tier": "concurrent-sessions", "session_a": "announce 1; [ADD v4->g1, ADD g1{nh1}, ADD nh1]", "session_b": "announce 2; [ADD v6->g2, ADD g2{nh2}, ADD nh2]", "oracle": "outcome must be one of the outcomes of the step-wise interleavings on a sequential server"})
}

// ChildC06Concurrent explores one pair of programs.
func ChildC06Concurrent(rep *report.Report, tier, part string) {
	var i, j int
	fmt.Sscanf(part, "lin/%d/%d", &i, &j)
	as, bs := linPrograms()
	pa, pb := as[i], bs[j]
	t0 := time.Now()
	seq := linSequential(pa, pb)
	seqT := time.Since(t0)
	bound := 3
	if tier == "thorough" {
		bound = 5
	}
	unbounded := os.Getenv("VERIF_LIN_UNBOUNDED") != ""
	dl := ribhist.Budget(tier, 90*time.Second, 20*time.Minute)
	name := "concurrent-sessions/" + part[4:]
	res := mc.DFS(mc.SchedConfig{Name: name, Body: linBody(pa, pb), Bound: bound, Unbounded: unbounded, SwitchCost: 1, Deadline: dl,
		Outcome: func(x *rt.Exec) string {
			for _, e := range x.Events {
				if e.Label == "lin-outcome" {
					return e.Val.(string)
				}
			}
			return fmt.Sprintf("crash=%v deadlock=%v", x.Crash != "", x.Deadlock)
		},
		Check: func(x *rt.Exec) []mc.Fail {
			if fs := liveness(x); len(fs) > 0 {
				return fs
			}
			for _, e := range x.Events {
				if e.Label != "lin-outcome" {
					continue
				}
				if o := e.Val.(string); !seq[o] {
					var near []string
					for k := range seq {
						near = append(near, k)
					}
					sort.Strings(near)
					if len(near) > 3 {
						near = near[:3]
					}
					return []mc.Fail{{Sig: "C06/concurrent-sessions-outcome-not-sequentially-explainable", What: fmt.Sprintf("%s || %s: the concurrent execution ended in {%s}, which none of the %d step-wise interleavings of the two programs on a sequential server produces (e.g. %s)", pa.name, pb.name, o, len(seq), strings.Join(near, " ;; "))}}
				}
			}
			return nil
		}})
	if res.EngineError != "" {
		rep.EngineError("%s: %s", name, res.EngineError)
	}
	if res.CacheDiff != "" {
		rep.Set("cache_selftest:"+name, res.CacheDiff)
	}
	reached := 0
	for o := range res.Outcomes {
		if seq[o] {
			reached++
		}
	}
	rep.Add("pruned_at_visited_states", res.Pruned)
	rep.Add("states", res.Execs)
	rep.Add("transitions", res.Steps)
	rep.Add("traces_validated_against_impl", res.Execs)
	rep.Add("evaluations", res.Execs)
	rep.Add("distinct_nontrivial", len(res.Outcomes))
	rep.And("exhaustive", res.Exhaustive)
	rep.Set("scenario:"+name, map[string]any{"session_a": pa.name, "session_b": pb.name, "sequential_interleavings_outcomes": len(seq), "sequential_reference_seconds": seqT.Seconds(),
		"executions": res.Execs, "bound_target": bound, "bound_completed": res.BoundCompleted, "executions_per_bound": res.ExecsPerBound,
		"distinct_outcomes": len(res.Outcomes), "sequential_outcomes_reached_concurrently": reached, "bounding": "deviations from the default scheduler"})
	for _, f := range res.Fails {
		rep.Violate(f.Sig, f.What, map[string]any{"scenario": name, "schedule": f.History})
	}
}
