// Package conc holds the schedule-exploration harnesses over the real server under the controlled runtime:
// the concurrent-election tier of C05 (linearizability, checked with porcupine) and the C11 scenarios (data
// races through the scheduler-blind race detector, deadlocks, crashes, quiescent consistency).
package conc

import (
	"bufio"
	"context"
	"fmt"
	"google.golang.org/grpc/codes"
	"io"
	"os"
	"path/filepath"
	"regexp"
	"sort"
	"strings"
	"time"

	"github.com/anishathalye/porcupine"
	"github.com/openconfig/gribigo/aft"
	"github.com/openconfig/gribigo/constants"
	"github.com/openconfig/gribigo/rib"
	"github.com/openconfig/gribigo/server"
	"google.golang.org/protobuf/proto"

	"verif/harness/ribhist"
	"verif/harness/ribx"
	"verif/harness/sesshist"
	"verif/harness/streams"
	"verif/mc"
	"verif/report"
	"verif/rt"
	"verif/rt/vsync"
	"verif/wire"

	spb "github.com/openconfig/gribi/v1/proto/service"
)

const (
	D = "DEFAULT"
	V = "VRF"
)

type ID = sesshist.ID

var params = &spb.SessionParameters{Redundancy: spb.SessionParameters_SINGLE_PRIMARY, Persistence: spb.SessionParameters_PRESERVE}

func newServer(opts ...server.ServerOpt) *server.Server {
	s, err := server.New(append([]server.ServerOpt{server.WithVRFs([]string{V})}, opts...)...)
	if err != nil {
		panic(err)
	}
	return s
}

func negotiate(s *server.Server, sid string) error {
	if err := s.VerifNewClient(sid); err != nil {
		return err
	}
	// (a Modify RPC that ends with an error removes its session, as the handler does)
	if _, err := s.VerifCheckParams(sid, params, false); err != nil {
		s.VerifDeleteClient(sid)
		return err
	}
	if err := s.VerifUpdateParams(sid, params); err != nil {
		s.VerifDeleteClient(sid)
		return err
	}
	return nil
}

// --- election linearizability (C05) -----------------------------------------------------------------------------

type elecIn struct {
	read bool
	sid  string
	id   ID
}
type elecOut struct {
	err    bool
	id     *ID
	master string
}

// String renders the value without pointer addresses (outcome classes must be comparable across executions).
func (o elecOut) String() string {
	if o.id == nil {
		return fmt.Sprintf("{err=%v id=none master=%q}", o.err, o.master)
	}
	return fmt.Sprintf("{err=%v id=%v master=%q}", o.err, *o.id, o.master)
}

type elecState struct {
	max    *ID
	master string
}

var elecModel = porcupine.Model{
	Init: func() any { return elecState{} },
	Step: func(st, in, out any) (bool, any) {
		s, i, o := st.(elecState), in.(elecIn), out.(elecOut)
		if i.read {
			return eqID(o.id, s.max) && o.master == s.master, s
		}
		if (i.id == ID{}) {
			return o.err, s
		}
		if s.max == nil || i.id.Cmp(*s.max) >= 0 {
			id := i.id
			s = elecState{max: &id, master: i.sid}
		}
		return !o.err && eqID(o.id, s.max), s
	},
	Equal: func(a, b any) bool {
		x, y := a.(elecState), b.(elecState)
		return eqID(x.max, y.max) && x.master == y.master
	},
	DescribeOperation: func(in, out any) string { return fmt.Sprintf("%+v -> %+v", in, out) },
}

func eqID(a, b *ID) bool {
	if a == nil || b == nil {
		return a == b
	}
	return *a == *b
}

func idOf(p *spb.Uint128) *ID {
	if p == nil {
		return nil
	}
	return &ID{Hi: p.High, Lo: p.Low}
}

// electionScenario: announcers[i] is the list of ids session i announces in order; readers read the election.
func electionScenario(announcers [][]ID, readers int) func() {
	return func() {
		s := newServer()
		var wg vsync.WaitGroup
		for i := range announcers {
			if err := negotiate(s, fmt.Sprintf("s%d", i)); err != nil {
				panic(err)
			}
		}
		wg.Add(len(announcers) + readers)
		for i, ids := range announcers {
			sid := fmt.Sprintf("s%d", i)
			rt.Go("announcer-"+sid, func() {
				defer wg.Done()
				for _, id := range ids {
					rt.Emit("call", elecIn{sid: sid, id: id})
					res, err := s.VerifRunElection(sid, id.Proto())
					rt.Emit("ret", elecOut{err: err != nil, id: idOf(res.GetElectionId())})
				}
			})
		}
		for r := 0; r < readers; r++ {
			rt.Go("reader", func() {
				defer wg.Done()
				for k := 0; k < 2; k++ {
					rt.Emit("call", elecIn{read: true})
					m, id := s.VerifElection()
					rt.Emit("ret", elecOut{id: idOf(id), master: m})
				}
			})
		}
		wg.Wait()
		m, id := s.VerifElection()
		rt.Emit("final", elecOut{id: idOf(id), master: m})
	}
}

func historyOf(x *rt.Exec) ([]porcupine.Operation, *elecOut) {
	var ops []porcupine.Operation
	open := map[int]int{}
	var final *elecOut
	for ts, e := range x.Events {
		switch e.Label {
		case "call":
			ops = append(ops, porcupine.Operation{ClientId: e.Thread, Input: e.Val, Call: int64(ts), Return: -1})
			open[e.Thread] = len(ops) - 1
		case "ret":
			i := open[e.Thread]
			ops[i].Output, ops[i].Return = e.Val, int64(ts)
		case "final":
			f := e.Val.(elecOut)
			final = &f
		}
	}
	var done []porcupine.Operation
	for _, o := range ops {
		if o.Return >= 0 {
			done = append(done, o)
		}
	}
	return done, final
}

func checkElection(announcers [][]ID) func(x *rt.Exec) []mc.Fail {
	return func(x *rt.Exec) []mc.Fail {
		if fs := liveness(x); len(fs) > 0 {
			return fs
		}
		ops, final := historyOf(x)
		var out []mc.Fail
		if !porcupine.CheckOperations(elecModel, ops) {
			var sb strings.Builder
			for _, o := range ops {
				fmt.Fprintf(&sb, "[%d..%d] T%d %+v -> %+v; ", o.Call, o.Return, o.ClientId, o.Input, o.Output)
			}
			out = append(out, mc.Fail{Sig: "C05/election-history-not-linearizable", What: "no sequential order of the concurrent announcements / reads explains the responses: " + sb.String()})
		}
		var max *ID
		for _, ids := range announcers {
			for _, id := range ids {
				id := id
				if (id != ID{}) && (max == nil || id.Cmp(*max) > 0) {
					max = &id
				}
			}
		}
		if final != nil && !eqID(final.id, max) {
			out = append(out, mc.Fail{Sig: "C05/final-id-is-not-maximum-announced", What: fmt.Sprintf("after all announcements returned the server holds %v, the maximum announced is %v", final.id, max)})
		}
		if final != nil && max != nil {
			ok := false
			for i, ids := range announcers {
				for _, id := range ids {
					if id == *max && final.master == fmt.Sprintf("s%d", i) {
						ok = true
					}
				}
			}
			if !ok {
				out = append(out, mc.Fail{Sig: "C05/final-primary-did-not-announce-maximum", What: fmt.Sprintf("the primary %q never announced the maximum %v", final.master, *max)})
			}
		}
		return out
	}
}

func liveness(x *rt.Exec) []mc.Fail {
	switch {
	case x.Crash != "":
		return []mc.Fail{{Sig: "crash/" + crashSite(x.Crash), What: firstLines(x.Crash, 12)}}
	case x.Deadlock:
		return []mc.Fail{{Sig: "deadlock/" + strings.Join(kinds(x.Blocked), ","), What: fmt.Sprintf("deadlock: no thread can run; blocked: %v", x.Blocked)}}
	case x.Livelock:
		return []mc.Fail{{Sig: "livelock", What: fmt.Sprintf("a poller never makes progress; blocked: %v", x.Blocked)}}
	}
	return nil
}

func kinds(blocked []string) []string {
	var out []string
	for _, b := range blocked {
		if i := strings.Index(b, "("); i >= 0 {
			b = b[i+1:]
		}
		out = append(out, strings.Replace(b, ") at ", ":", 1))
	}
	sort.Strings(out)
	return out
}

func firstLines(s string, n int) string {
	l := strings.Split(s, "\n")
	if len(l) > n {
		l = l[:n]
	}
	return strings.Join(l, " | ")
}

func crashSite(stack string) string {
	for _, l := range strings.Split(stack, "\n") {
		l = strings.TrimSpace(l)
		if strings.HasPrefix(l, "github.com/openconfig/gribigo/") && strings.Contains(l, "(") {
			return strings.TrimPrefix(l[:strings.LastIndex(l, "(")], "github.com/openconfig/gribigo/")
		}
	}
	return firstLines(stack, 1)
}

// explore runs one scenario and merges the result.
func explore(rep *report.Report, name string, body func(), check func(*rt.Exec) []mc.Fail, bound int, dl time.Time) mc.SchedResult {
	return exploreCost(rep, name, body, check, bound, 0, dl)
}

// exploreCost: switchCost 0 = preemption bounding, 1 = deviation bounding (see rt.Options.SwitchCost).
func exploreCost(rep *report.Report, name string, body func(), check func(*rt.Exec) []mc.Fail, bound, switchCost int, dl time.Time) mc.SchedResult {
	raceBefore := rt.RaceErrors()
	res := mc.DFS(mc.SchedConfig{Name: name, Body: body, Check: check, Bound: bound, SwitchCost: switchCost, Deadline: dl, Outcome: func(x *rt.Exec) string {
		switch {
		case x.Crash != "":
			return "crash"
		case x.Deadlock:
			return "deadlock"
		case x.Livelock:
			return "livelock"
		}
		var sb strings.Builder
		for _, e := range x.Events {
			if e.Label != "call" {
				fmt.Fprintf(&sb, "%s=%v;", e.Label, e.Val)
			}
		}
		return fmt.Sprintf("%x", hashStr(sb.String()))
	}})
	if res.EngineError != "" {
		rep.EngineError("%s: %s", name, res.EngineError)
	}
	if res.CacheDiff != "" {
		rep.Set("cache_selftest:"+name, res.CacheDiff)
	}
	rep.Add("pruned_at_visited_states", res.Pruned)
	rep.Add("states", res.Execs)
	rep.Add("transitions", res.Steps)
	rep.Add("traces_validated_against_impl", res.Execs)
	rep.Add("choice_points", res.ChoicePoints)
	rep.And("exhaustive", res.Exhaustive)
	rep.Set("scenario:"+name, map[string]any{
		"executions": res.Execs, "scheduling_steps": res.Steps, "bound_target": bound, "bound_completed": res.BoundCompleted,
		"bounding":             map[int]string{0: "preemptions (switches from a blocked thread are free)", 1: "deviations from the default scheduler (every non-default choice costs 1)"}[switchCost],
		"executions_per_bound": res.ExecsPerBound, "distinct_outcomes": len(res.Outcomes), "max_choice_points": res.MaxChoices,
		"race_reports": rt.RaceErrors() - raceBefore,
	})
	for _, f := range res.Fails {
		rep.Violate(f.Sig, f.What, map[string]any{"scenario": name, "schedule": f.History})
	}
	return res
}

func hashStr(s string) uint32 {
	var h uint32 = 2166136261
	for i := 0; i < len(s); i++ {
		h = (h ^ uint32(s[i])) * 16777619
	}
	return h
}

// RunC05Sched is the schedule tier of C05.
func RunC05Sched(rep *report.Report, tier string, dl time.Time) {
	bound := 2
	if tier == "thorough" {
		bound = 3
	}
	scen := map[string][][]ID{
		"two-announcers-colliding-words": {{{0, 2}, {1, 0}}, {{1, 1}}},
		"three-announcers":               {{{0, 1}}, {{0, 2}}, {{0, 2}}},
		"zero-and-equal":                 {{{0, 0}, {0, 1}}, {{0, 1}}},
	}
	names := make([]string, 0, len(scen))
	for n := range scen {
		names = append(names, n)
	}
	sort.Strings(names)
	for _, n := range names {
		explore(rep, "election/"+n, electionScenario(scen[n], 1), checkElection(scen[n]), bound, dl)
	}
	rep.Sample(map[string]any{"scenario": "election/two-announcers-colliding-words", "threads": []string{"s0: announce (0,2), announce (1,0)", "s1: announce (1,1)", "reader: 2 reads"}})
}

// --- C11 scenarios -----------------------------------------------------------------------------------------------

type scenario struct {
	name  string
	body  func()
	check func(x *rt.Exec) []mc.Fail
	// lessBound lowers the deviation bound of an expensive scenario (quick 2-lessBound, thorough 3-lessBound).
	lessBound int
}

func stamped(id uint64, ni string, t spb.AFTOperation_Operation, e proto.Message, el ID) *spb.AFTOperation {
	op := ribx.Op(id, ni, t, proto.Clone(e))
	op.ElectionId = el.Proto()
	return op
}

// doModify runs the real doModify with buffered channels and emits the results.
func doModify(s *server.Server, sid string, ops ...*spb.AFTOperation) {
	resCh := make(chan *spb.ModifyResponse, 64)
	errCh := make(chan error, 64)
	s.VerifDoModify(sid, ops, resCh, errCh)
	for {
		sel := rt.NewSelect(true)
		c := rt.SelRecv(sel, resCh)
		if sel.Wait() != 0 {
			break
		}
		for _, r := range c.Val().GetResult() {
			rt.Emit("result", [2]any{r.GetId(), r.GetStatus()})
		}
	}
	for {
		sel := rt.NewSelect(true)
		c := rt.SelRecv(sel, errCh)
		if sel.Wait() != 0 {
			break
		}
		rt.Emit("rpc-error", c.Val().Error())
	}
}

// doModifyAcked is doModify returning the ids acknowledged as RIB_PROGRAMMED, in order.
func doModifyAcked(s *server.Server, sid string, ops ...*spb.AFTOperation) []uint64 {
	resCh := make(chan *spb.ModifyResponse, 64)
	errCh := make(chan error, 64)
	s.VerifDoModify(sid, ops, resCh, errCh)
	var acked []uint64
	for {
		sel := rt.NewSelect(true)
		c := rt.SelRecv(sel, resCh)
		if sel.Wait() != 0 {
			break
		}
		for _, r := range c.Val().GetResult() {
			rt.Emit("result", [3]any{sid, r.GetId(), r.GetStatus()})
			if r.GetStatus() == spb.AFTResult_RIB_PROGRAMMED {
				acked = append(acked, r.GetId())
			}
		}
	}
	for {
		sel := rt.NewSelect(true)
		c := rt.SelRecv(sel, errCh)
		if sel.Wait() != 0 {
			break
		}
		rt.Emit("rpc-error", c.Val().Error())
	}
	return acked
}

// getAll reads everything. strict: the caller asserts that no Flush overlaps an ADD in the scenario, so that every
// state a network instance passes through is closed under references within the instance (an ADD racing with a Flush
// can legitimately leave a group without its next-hop: C11 exempts modifications that a Flush overlaps).
func getAll(s *server.Server, stub *wire.Stub, strict bool) {
	st, err := stub.Get(context.Background(), &spb.GetRequest{NetworkInstance: &spb.GetRequest_All{All: &spb.Empty{}}, Aft: spb.AFTType_ALL})
	if err != nil {
		rt.Emit("get-error", err.Error())
		return
	}
	n := 0
	got := ribx.NewModel()
	for {
		r, err := st.Recv()
		if err == io.EOF {
			break
		}
		if err != nil {
			rt.Emit("get-error", err.Error())
			return
		}
		n += len(r.GetEntry())
		for _, e := range r.GetEntry() {
			var k ribx.Kind
			var key string
			var p proto.Message
			switch t := e.GetEntry().(type) {
			case *spb.AFTEntry_Ipv4:
				k, key, p = ribx.V4, t.Ipv4.GetPrefix(), t.Ipv4
			case *spb.AFTEntry_Ipv6:
				k, key, p = ribx.V6, t.Ipv6.GetPrefix(), t.Ipv6
			case *spb.AFTEntry_Mpls:
				k, key, p = ribx.MPLS, fmt.Sprint(t.Mpls.GetLabelUint64()), t.Mpls
			case *spb.AFTEntry_NextHopGroup:
				k, key, p = ribx.NHG, fmt.Sprint(t.NextHopGroup.GetId()), t.NextHopGroup
			case *spb.AFTEntry_NextHop:
				k, key, p = ribx.NH, fmt.Sprint(t.NextHop.GetIndex()), t.NextHop
			default:
				continue
			}
			if got.Has(e.GetNetworkInstance(), k, key) {
				rt.Emit("get-inconsistent", fmt.Sprintf("duplicate: the stream carries %s %s of %s twice", k, key, e.GetNetworkInstance()))
			}
			got.Set(e.GetNetworkInstance(), k, key, p)
		}
	}
	// Each network instance is read under its lock, and every state a network instance passes through is closed
	// under references within the instance (C02): what a Get returns for one instance must be one of those states,
	// so it cannot contain an entry whose group / next-hop of the SAME instance is missing from it.
	var bad []string
	for id, e := range got.E {
		for _, r := range ribx.Refs(e.NI, e.Payload) {
			if r.NI == e.NI && !got.Has(r.NI, r.Kind, r.Key) {
				bad = append(bad, fmt.Sprintf("%s references %s %s which the same Get did not return", id, r.Kind, r.Key))
			}
		}
	}
	var ks []string
	for id := range got.E {
		ks = append(ks, id)
	}
	sort.Strings(ks)
	rt.Emit("get-keys", strings.Join(ks, " "))
	if len(bad) > 0 && strict {
		sort.Strings(bad)
		rt.Emit("get-inconsistent", "the entries returned for one network instance were never installed together: "+strings.Join(bad, "; "))
	}
	rt.Emit("get-done", n)
}

// afterwards is the epilogue of every scenario on a server: once all calls have returned, a fresh session must still
// be able to negotiate, take the primary role with a higher id, program both network instances, read everything
// and flush. A lock or goroutine that one of the concurrent calls left behind is a deadlock here.
func afterwards(s *server.Server) {
	rt.Quiesce()
	const sid = "afterwards"
	if err := negotiate(s, sid); err != nil {
		rt.Emit("afterwards-error", "negotiate: "+err.Error())
		return
	}
	top := ID{Hi: 9, Lo: 9}
	if _, err := s.VerifRunElection(sid, top.Proto()); err != nil {
		rt.Emit("afterwards-error", "election: "+err.Error())
		return
	}
	doModify(s, sid, stamped(901, D, spb.AFTOperation_ADD, ribx.NHEntry(90, "9.0.0.1"), top), stamped(902, V, spb.AFTOperation_ADD, ribx.NHEntry(90, "9.0.0.2"), top))
	getAll(s, wire.New(s), false)
	if _, err := s.Flush(context.Background(), &spb.FlushRequest{NetworkInstance: &spb.FlushRequest_All{All: &spb.Empty{}}, Election: &spb.FlushRequest_Id{Id: top.Proto()}}); err != nil {
		rt.Emit("afterwards-error", "flush: "+err.Error())
	}
	s.VerifDeleteClient(sid)
}

func scenarios() []scenario {
	one := ID{Lo: 1}
	nh1, nh2 := ribx.NHEntry(1, "1.1.1.1"), ribx.NHEntry(2, "2.2.2.2")
	g1 := ribx.NHGEntry(1, 0, [2]uint64{1, 1})
	v4 := ribx.V4Entry("10.0.0.0/8", 1, "", nil)
	primary := func(s *server.Server, sid string, id ID) {
		if err := negotiate(s, sid); err != nil {
			panic(err)
		}
		if _, err := s.VerifRunElection(sid, id.Proto()); err != nil {
			panic(err)
		}
	}
	basic := func(x *rt.Exec) []mc.Fail {
		fs := liveness(x)
		for _, e := range x.Events {
			if e.Label == "get-inconsistent" {
				fs = append(fs, mc.Fail{Sig: "C11/get-result-is-no-snapshot-of-the-network-instance", What: "a Get concurrent with modifications: " + e.Val.(string)})
			}
			if e.Label == "afterwards-error" {
				fs = append(fs, mc.Fail{Sig: "C11/server-unusable-after-concurrent-calls/" + strings.SplitN(e.Val.(string), ":", 2)[0], What: "after all concurrent calls returned a fresh session failed at " + e.Val.(string)})
			}
		}
		return fs
	}
	foldCheck := func(x *rt.Exec) []mc.Fail {
		if fs := basic(x); len(fs) > 0 {
			return fs
		}
		// quiescent consistency: the final contents (emitted by the body) equal the fold of the acknowledged ops
		var final, fold string
		for _, e := range x.Events {
			switch e.Label {
			case "final-rib":
				final = e.Val.(string)
			case "final-fold":
				fold = e.Val.(string)
			}
		}
		if final != fold {
			return []mc.Fail{{Sig: "C11/quiescent-contents-differ-from-acknowledged", What: "after all calls returned the installed entries are not the acknowledged ones: rib=" + final + " fold=" + fold}}
		}
		return nil
	}
	return []scenario{
		{name: "S1-announce-announce-read", body: electionScenario([][]ID{{{0, 2}, {1, 0}}, {{1, 1}}}, 1), check: checkElection([][]ID{{{0, 2}, {1, 0}}, {{1, 1}}})},
		{name: "S2-modify-get-flush", body: func() {
			s := newServer()
			stub := wire.New(s)
			primary(s, "p", one)
			var wg vsync.WaitGroup
			wg.Add(3)
			rt.Go("modify", func() {
				defer wg.Done()
				doModify(s, "p", stamped(1, D, spb.AFTOperation_ADD, nh1, one), stamped(2, D, spb.AFTOperation_ADD, g1, one), stamped(3, D, spb.AFTOperation_ADD, v4, one))
			})
			rt.Go("get", func() { defer wg.Done(); getAll(s, stub, false) })
			rt.Go("flush", func() {
				defer wg.Done()
				_, err := s.Flush(context.Background(), &spb.FlushRequest{NetworkInstance: &spb.FlushRequest_All{All: &spb.Empty{}}, Election: &spb.FlushRequest_Override{Override: &spb.Empty{}}})
				rt.Emit("flush", fmt.Sprint(err))
			})
			wg.Wait()
			afterwards(s)
		}, check: func(x *rt.Exec) []mc.Fail {
			if fs := basic(x); len(fs) > 0 {
				return fs
			}
			var out []mc.Fail
			for _, e := range x.Events {
				if e.Label == "flush" && e.Val.(string) != "<nil>" {
					out = append(out, mc.Fail{Sig: "C11/flush-failed-under-concurrency", What: "Flush(all, override) concurrent with Modify and Get answered " + e.Val.(string)})
				}
				if e.Label == "get-error" {
					out = append(out, mc.Fail{Sig: "C11/get-failed-under-concurrency", What: "Get concurrent with Modify and Flush failed: " + e.Val.(string)})
				}
			}
			return out
		}},
		{name: "S3-negotiate-negotiate-disconnect", body: func() {
			s := newServer()
			primary(s, "old", one)
			var wg vsync.WaitGroup
			wg.Add(3)
			for _, sid := range []string{"a", "b"} {
				rt.Go("negotiate-"+sid, func() {
					defer wg.Done()
					err := negotiate(s, sid)
					rt.Emit("negotiated", fmt.Sprint(err))
					if err == nil {
						_, err = s.VerifRunElection(sid, ID{Lo: 2}.Proto())
						rt.Emit("announced", fmt.Sprint(err))
					}
				})
			}
			rt.Go("disconnect", func() { defer wg.Done(); s.VerifDeleteClient("old") })
			wg.Wait()
			_ = s.VerifSessions()
			afterwards(s)
		}, check: basic},
		{name: "S4-flush-with-id-vs-announce", body: func() {
			s := newServer()
			primary(s, "p", one)
			if err := negotiate(s, "q"); err != nil {
				panic(err)
			}
			var wg vsync.WaitGroup
			wg.Add(2)
			rt.Go("flush", func() {
				defer wg.Done()
				_, err := s.Flush(context.Background(), &spb.FlushRequest{NetworkInstance: &spb.FlushRequest_All{All: &spb.Empty{}}, Election: &spb.FlushRequest_Id{Id: ID{Lo: 1}.Proto()}})
				rt.Emit("flush", fmt.Sprint(err))
			})
			rt.Go("announce", func() {
				defer wg.Done()
				_, err := s.VerifRunElection("q", ID{Lo: 5}.Proto())
				rt.Emit("announced", fmt.Sprint(err))
			})
			wg.Wait()
			afterwards(s)
		}, check: basic},
		{name: "S5-primary-vs-non-primary-same-key", body: func() {
			s := newServer()
			primary(s, "p", ID{Lo: 2})
			if err := negotiate(s, "n"); err != nil {
				panic(err)
			}
			if _, err := s.VerifRunElection("n", one.Proto()); err != nil {
				panic(err)
			}
			var wg vsync.WaitGroup
			wg.Add(3)
			rt.Go("primary", func() {
				defer wg.Done()
				doModify(s, "p", stamped(1, D, spb.AFTOperation_ADD, nh1, ID{Lo: 2}), stamped(2, D, spb.AFTOperation_ADD, g1, ID{Lo: 2}), stamped(3, D, spb.AFTOperation_ADD, v4, ID{Lo: 2}))
			})
			rt.Go("non-primary", func() {
				defer wg.Done()
				doModify(s, "n", stamped(1, D, spb.AFTOperation_ADD, ribx.NHEntry(1, "9.9.9.9"), one), stamped(2, D, spb.AFTOperation_DELETE, nh1, one))
			})
			rt.Go("reader", func() { defer wg.Done(); _, _ = s.VerifRIB().RIBContents() })
			wg.Wait()
			m, err := ribx.Snapshot(s.VerifRIB())
			if err != nil {
				panic(err)
			}
			rt.Emit("final-rib", m.Canon())
			want := ribx.NewModel(D, V)
			want.Apply(ribx.Op(1, D, spb.AFTOperation_ADD, nh1))
			want.Apply(ribx.Op(2, D, spb.AFTOperation_ADD, g1))
			want.Apply(ribx.Op(3, D, spb.AFTOperation_ADD, v4))
			rt.Emit("final-fold", want.Canon())
			afterwards(s)
		}, check: foldCheck},
		{name: "S6-rib-add-delete-with-resolved-entry-hook", body: func() {
			hook := func(ribs map[string]*aft.RIB, ot constants.OpType, ni string, a constants.AFT, key any, _ ...rib.ResolvedDetails) {
				// a consumer reads its private snapshot
				n := 0
				for _, r := range ribs {
					n += len(r.GetAfts().Ipv4Entry)
				}
				rt.Emit("hook", fmt.Sprintf("%v %s %v %d", ot, ni, key, n))
			}
			s := newServer(server.WithRIBResolvedEntryHook(hook))
			r := s.VerifRIB()
			r.AddEntry(D, ribx.Op(1, D, spb.AFTOperation_ADD, nh1))
			r.AddEntry(D, ribx.Op(2, D, spb.AFTOperation_ADD, g1))
			var wg vsync.WaitGroup
			wg.Add(3)
			rt.Go("add", func() { defer wg.Done(); r.AddEntry(D, ribx.Op(3, D, spb.AFTOperation_ADD, v4)) })
			rt.Go("delete", func() { defer wg.Done(); r.DeleteEntry(D, ribx.Op(4, D, spb.AFTOperation_DELETE, v4)) })
			rt.Go("add-nh", func() { defer wg.Done(); r.AddEntry(D, ribx.Op(5, D, spb.AFTOperation_ADD, nh2)) })
			wg.Wait()
			afterwards(s)
		}, check: basic},
		{name: "S9-deletes-vs-flush-vs-get", body: func() {
			s := newServer()
			stub := wire.New(s)
			primary(s, "p", one)
			r := s.VerifRIB()
			r.AddEntry(D, ribx.Op(1, D, spb.AFTOperation_ADD, nh1))
			r.AddEntry(D, ribx.Op(2, D, spb.AFTOperation_ADD, nh2))
			r.AddEntry(D, ribx.Op(3, D, spb.AFTOperation_ADD, g1))
			r.AddEntry(D, ribx.Op(4, D, spb.AFTOperation_ADD, ribx.NHGEntry(2, 0, [2]uint64{2, 1})))
			r.AddEntry(D, ribx.Op(5, D, spb.AFTOperation_ADD, v4))
			var wg vsync.WaitGroup
			wg.Add(3)
			rt.Go("deletes", func() {
				defer wg.Done()
				doModify(s, "p", stamped(11, D, spb.AFTOperation_DELETE, ribx.NHGEntry(2, 0), one), stamped(12, D, spb.AFTOperation_DELETE, nh2, one), stamped(13, D, spb.AFTOperation_DELETE, g1, one))
			})
			rt.Go("flush", func() {
				defer wg.Done()
				_, err := s.Flush(context.Background(), &spb.FlushRequest{NetworkInstance: &spb.FlushRequest_Name{Name: D}, Election: &spb.FlushRequest_Id{Id: one.Proto()}})
				rt.Emit("flush", fmt.Sprint(err))
			})
			rt.Go("get", func() { defer wg.Done(); getAll(s, stub, true) })
			wg.Wait()
			afterwards(s)
		}, check: basic},
		{name: "S8-contents-vs-cross-instance-flush-vs-add-network-instance", body: func() {
			s := newServer()
			r := s.VerifRIB()
			r.AddEntry(V, ribx.Op(1, V, spb.AFTOperation_ADD, nh1))
			r.AddEntry(V, ribx.Op(2, V, spb.AFTOperation_ADD, g1))
			r.AddEntry(D, ribx.Op(3, D, spb.AFTOperation_ADD, ribx.V4Entry("10.0.0.0/8", 1, V, nil)))
			var wg vsync.WaitGroup
			wg.Add(3)
			rt.Go("contents", func() { defer wg.Done(); _, err := r.RIBContents(); rt.Emit("contents", fmt.Sprint(err)) })
			rt.Go("flush", func() {
				defer wg.Done()
				_, err := s.Flush(context.Background(), &spb.FlushRequest{NetworkInstance: &spb.FlushRequest_Name{Name: D}, Election: &spb.FlushRequest_Override{Override: &spb.Empty{}}})
				rt.Emit("flush", fmt.Sprint(err))
			})
			rt.Go("add-ni", func() { defer wg.Done(); rt.Emit("add-ni", fmt.Sprint(s.AddNetworkInstance("NEW"))) })
			wg.Wait()
		}, check: basic},
		{name: "S10-abandoned-get-over-both-instances-vs-writers", body: func() {
			s := newServer()
			stub := wire.New(s)
			primary(s, "p", one)
			r := s.VerifRIB()
			r.AddEntry(D, ribx.Op(1, D, spb.AFTOperation_ADD, nh1))
			r.AddEntry(D, ribx.Op(2, D, spb.AFTOperation_ADD, nh2))
			r.AddEntry(D, ribx.Op(3, D, spb.AFTOperation_ADD, g1))
			r.AddEntry(V, ribx.Op(4, V, spb.AFTOperation_ADD, nh1))
			r.AddEntry(V, ribx.Op(5, V, spb.AFTOperation_ADD, nh2))
			var wg vsync.WaitGroup
			wg.Add(3)
			rt.Go("get-abandoned", func() {
				defer wg.Done()
				c, err := stub.Get(context.Background(), &spb.GetRequest{NetworkInstance: &spb.GetRequest_All{All: &spb.Empty{}}, Aft: spb.AFTType_ALL})
				if err != nil {
					return
				}
				st := stub.Gets[len(stub.Gets)-1]
				c.Recv()
				st.Abort(codes.Canceled) // the client goes away after the first response
			})
			rt.Go("modify", func() {
				defer wg.Done()
				doModify(s, "p", stamped(11, V, spb.AFTOperation_ADD, ribx.NHEntry(3, "3.3.3.3"), one), stamped(12, D, spb.AFTOperation_ADD, ribx.NHEntry(3, "3.3.3.3"), one))
			})
			rt.Go("flush", func() {
				defer wg.Done()
				_, err := s.Flush(context.Background(), &spb.FlushRequest{NetworkInstance: &spb.FlushRequest_Name{Name: V}, Election: &spb.FlushRequest_Id{Id: one.Proto()}})
				rt.Emit("flush", fmt.Sprint(err))
			})
			wg.Wait()
			rt.Quiesce()
			// afterwards every instance must still be writable
			doModify(s, "p", stamped(21, V, spb.AFTOperation_ADD, ribx.NHEntry(4, "4.4.4.4"), one), stamped(22, D, spb.AFTOperation_ADD, ribx.NHEntry(4, "4.4.4.4"), one))
			afterwards(s)
		}, check: basic},
		{name: "S11-get-vs-chain-delete-by-one-writer", lessBound: 1, body: func() {
			// one writer removes a whole chain in the only order the RIB accepts (entry, group, next-hop) while a Get
			// reads: what the Get returns for the instance must be the contents at ONE instant, i.e. one of the four
			// states the single writer produces - never a mixture of tables read at different instants.
			s := newServer()
			stub := wire.New(s)
			primary(s, "p", one)
			r := s.VerifRIB()
			g2 := ribx.NHGEntry(2, 0, [2]uint64{2, 1})
			v6 := ribx.V6Entry("2001:db8::/32", 2, "", nil)
			for i, e := range []proto.Message{nh1, nh2, g1, g2, v4, v6} {
				r.AddEntry(D, ribx.Op(uint64(i+1), D, spb.AFTOperation_ADD, e))
			}
			all := []string{"DEFAULT|nh|1", "DEFAULT|nh|2", "DEFAULT|nhg|1", "DEFAULT|nhg|2", "DEFAULT|v4|10.0.0.0/8", "DEFAULT|v6|2001:db8::/32"}
			var instants []string
			sort.Strings(all)
			cur := append([]string{}, all...)
			instants = append(instants, strings.Join(cur, " "))
			for _, del := range []string{"DEFAULT|v4|10.0.0.0/8", "DEFAULT|nhg|1", "DEFAULT|nh|1"} {
				var next []string
				for _, k := range cur {
					if k != del {
						next = append(next, k)
					}
				}
				cur = next
				instants = append(instants, strings.Join(cur, " "))
			}
			rt.Emit("instants", instants)
			var wg vsync.WaitGroup
			wg.Add(2)
			rt.GoPrio("deletes", 1, func() { // (background writer: by default it runs after the Get, one deviation puts it anywhere inside)
				defer wg.Done()
				doModify(s, "p", stamped(11, D, spb.AFTOperation_DELETE, v4, one), stamped(12, D, spb.AFTOperation_DELETE, g1, one), stamped(13, D, spb.AFTOperation_DELETE, nh1, one))
			})
			rt.Go("get", func() { defer wg.Done(); getAll(s, stub, true) })
			wg.Wait()
			afterwards(s)
		}, check: func(x *rt.Exec) []mc.Fail {
			fs := basic(x)
			var instants []string
			first := true
			for _, e := range x.Events {
				switch e.Label {
				case "instants":
					instants = e.Val.([]string)
				case "get-keys":
					if !first {
						continue // (the Get of the epilogue)
					}
					first = false
					ok := false
					for _, in := range instants {
						ok = ok || in == e.Val.(string)
					}
					if !ok {
						fs = append(fs, mc.Fail{Sig: "C11/get-result-is-no-snapshot-of-the-network-instance", What: fmt.Sprintf("a Get concurrent with one writer returned {%s}, which is none of the states the instance passed through: %q", e.Val, instants)})
					}
				}
			}
			return fs
		}},
		{name: "S12-primary-handover-during-a-batch-with-forward-references", body: func() {
			// session a is primary and sends a batch whose first operations are forward references (held until the
			// last one resolves them); session b announces a higher id while that batch is being applied and then
			// programs forward references of its own. Whatever the interleaving: nobody crashes or blocks, the final
			// election state is b's, and exactly the acknowledged operations are installed.
			s := newServer()
			primary(s, "a", one)
			if err := negotiate(s, "b"); err != nil {
				panic(err)
			}
			two := ID{Lo: 2}
			g2 := ribx.NHGEntry(2, 0, [2]uint64{2, 1})
			v6 := ribx.V6Entry("2001:db8::/32", 2, "", nil)
			opsA := []*spb.AFTOperation{stamped(1, D, spb.AFTOperation_ADD, v4, one), stamped(2, D, spb.AFTOperation_ADD, g1, one), stamped(3, D, spb.AFTOperation_ADD, nh1, one)}
			opsB := []*spb.AFTOperation{stamped(1, D, spb.AFTOperation_ADD, v6, two), stamped(2, D, spb.AFTOperation_ADD, g2, two), stamped(3, D, spb.AFTOperation_ADD, nh2, two)}
			var ackA, ackB []uint64
			var wg vsync.WaitGroup
			wg.Add(2)
			rt.Go("session-a", func() { defer wg.Done(); ackA = doModifyAcked(s, "a", opsA...) })
			rt.Go("session-b", func() {
				defer wg.Done()
				if _, err := s.VerifRunElection("b", two.Proto()); err != nil {
					rt.Emit("election-error", err.Error())
				}
				ackB = doModifyAcked(s, "b", opsB...)
			})
			wg.Wait()
			rt.Quiesce()
			m, err := ribx.Snapshot(s.VerifRIB())
			if err != nil {
				panic(err)
			}
			rt.Emit("final-rib", m.Canon())
			want := ribx.NewModel(D, V)
			for _, acked := range []struct {
				ids []uint64
				ops []*spb.AFTOperation
			}{{ackA, opsA}, {ackB, opsB}} {
				for _, id := range acked.ids {
					want.Apply(acked.ops[id-1])
				}
			}
			rt.Emit("final-fold", want.Canon())
			master, id := s.VerifElection()
			rt.Emit("final-election", fmt.Sprintf("%s (%d,%d)", master, id.GetHigh(), id.GetLow()))
			rt.Emit("acked-by-new-primary", len(ackB))
			afterwards(s)
		}, check: func(x *rt.Exec) []mc.Fail {
			fs := foldCheck(x)
			for _, e := range x.Events {
				switch e.Label {
				case "final-election":
					if e.Val.(string) != "b (0,2)" {
						fs = append(fs, mc.Fail{Sig: "C11/quiescent-election-state-wrong", What: "after both sessions finished the election state is " + e.Val.(string) + ", want b (0,2)"})
					}
				case "acked-by-new-primary":
					if e.Val.(int) != 3 {
						fs = append(fs, mc.Fail{Sig: "C11/request-not-answered", What: fmt.Sprintf("the new primary's three operations (two forward references and the next-hop that resolves them) were acknowledged %d times", e.Val.(int))})
					}
				case "election-error":
					fs = append(fs, mc.Fail{Sig: "C11/election-failed-under-concurrency", What: e.Val.(string)})
				}
			}
			return fs
		}},
		{name: "S13-client-stops-reading-mid-request-vs-other-sessions", body: func() {
			// As in the Modify handler the result channel is unbuffered. Session a's stream writer takes the first
			// result and then fails (the client has gone): the goroutine that applies a's request stays blocked on its
			// next result for ever - a leaked goroutine, harmless by itself. Nothing it holds may keep OTHER sessions
			// from being served: session b announces, programs, and the epilogue's fresh session does the same.
			s := newServer()
			primary(s, "a", one)
			if err := negotiate(s, "b"); err != nil {
				panic(err)
			}
			two := ID{Lo: 2}
			resCh := make(chan *spb.ModifyResponse)
			errCh := make(chan error)
			rt.Go("session-a-apply", func() {
				s.VerifDoModify("a", []*spb.AFTOperation{stamped(1, D, spb.AFTOperation_ADD, nh1, one), stamped(2, D, spb.AFTOperation_ADD, nh2, one), stamped(3, D, spb.AFTOperation_ADD, g1, one)}, resCh, errCh)
			})
			rt.Go("session-a-stream-writer", func() { rt.Recv(resCh) })
			var wg vsync.WaitGroup
			wg.Add(1)
			rt.Go("session-b", func() {
				defer wg.Done()
				if _, err := s.VerifRunElection("b", two.Proto()); err != nil {
					rt.Emit("election-error", err.Error())
				}
				rt.Emit("acked-by-b", len(doModifyAcked(s, "b", stamped(1, D, spb.AFTOperation_ADD, ribx.NHEntry(5, "5.5.5.5"), two))))
			})
			wg.Wait()
			afterwards(s)
		}, check: func(x *rt.Exec) []mc.Fail {
			fs := basic(x)
			for _, e := range x.Events {
				if e.Label == "acked-by-b" && e.Val.(int) != 1 {
					fs = append(fs, mc.Fail{Sig: "C11/request-not-answered", What: "session b's operation was not acknowledged while session a's request was stuck behind a client that stopped reading"})
				}
				if e.Label == "election-error" {
					fs = append(fs, mc.Fail{Sig: "C11/election-failed-under-concurrency", What: e.Val.(string)})
				}
			}
			return fs
		}},
		{name: "S14-two-flushes-of-all-instances", body: func() {
			// Two Flush RPCs over all instances at the same time. The order in which ONE iteration walks a map is an
			// environment choice here (rt.SetMapOrderChoices): two iterations over the same instances may disagree, as
			// they may with Go's randomised map iteration.
			s := newServer()
			r := s.VerifRIB()
			r.AddEntry(D, ribx.Op(1, D, spb.AFTOperation_ADD, nh1))
			r.AddEntry(V, ribx.Op(2, V, spb.AFTOperation_ADD, nh1))
			rt.SetMapOrderChoices(true)
			var wg vsync.WaitGroup
			wg.Add(2)
			for i := 0; i < 2; i++ {
				rt.Go("flush", func() {
					defer wg.Done()
					_, err := s.Flush(context.Background(), &spb.FlushRequest{NetworkInstance: &spb.FlushRequest_All{All: &spb.Empty{}}, Election: &spb.FlushRequest_Override{Override: &spb.Empty{}}})
					rt.Emit("flush", fmt.Sprint(err))
				})
			}
			wg.Wait()
			rt.SetMapOrderChoices(false)
			afterwards(s)
		}, check: func(x *rt.Exec) []mc.Fail {
			fs := basic(x)
			for _, e := range x.Events {
				if e.Label == "flush" && e.Val.(string) != "<nil>" {
					fs = append(fs, mc.Fail{Sig: "C11/flush-failed-under-concurrency", What: "one of two concurrent Flush(all, override) calls answered " + e.Val.(string)})
				}
			}
			return fs
		}},
		{name: "S7-add-network-instance-vs-get-flush", body: func() {
			s := newServer()
			stub := wire.New(s)
			r := s.VerifRIB()
			r.AddEntry(D, ribx.Op(1, D, spb.AFTOperation_ADD, nh1))
			r.AddEntry(V, ribx.Op(2, V, spb.AFTOperation_ADD, nh1))
			var wg vsync.WaitGroup
			wg.Add(3)
			rt.Go("add-ni", func() { defer wg.Done(); rt.Emit("add-ni", fmt.Sprint(s.AddNetworkInstance("NEW"))) })
			rt.Go("get", func() { defer wg.Done(); getAll(s, stub, true) })
			rt.Go("flush", func() {
				defer wg.Done()
				_, err := s.Flush(context.Background(), &spb.FlushRequest{NetworkInstance: &spb.FlushRequest_All{All: &spb.Empty{}}, Election: &spb.FlushRequest_Override{Override: &spb.Empty{}}})
				rt.Emit("flush", fmt.Sprint(err))
			})
			wg.Wait()
			afterwards(s)
		}, check: basic},
	}
}

// RunC11 decides C11. It must run in the -race build (bin/check arranges that). One child process per scenario.
func RunC11(rep *report.Report, tier string) {
	rep.Set("race_detector_active", rt.RaceEnabled)
	if !rt.RaceEnabled {
		rep.EngineError("C11 must run in the -race build of the worker")
		return
	}
	var names []string
	for _, sc := range scenarios() {
		names = append(names, sc.name)
	}
	// ... and the disconnect schedules of C10 (a session cut with a batch in flight), under the race detector here
	names = append(names, "sched/cancel", "sched/unavailable")
	base := os.Getenv("VERIF_RACE_LOG")
	rep.Shards(names, 12, func(part string) []string {
		lp := base + "-" + part
		return []string{"VERIF_RACE_LOG=" + lp, "GORACE=halt_on_error=0 exitcode=0 log_path=" + lp}
	})
	rep.Sample(map[string]any{"scenario": "S2-modify-get-flush", "threads": []string{"primary doModify [ADD nh1, ADD nhg1, ADD v4]", "Get(all, ALL) over the in-memory transport (+ doGet thread)", "Flush(all, override)"}})
}

// ChildC11 runs one scenario (shard process).
func ChildC11(rep *report.Report, tier, part string) {
	if strings.HasPrefix(part, "sched/") {
		streams.ChildC10Sched(rep, tier, part)
		for _, rr := range raceReports() {
			rep.Violate("C11/data-race/"+rr.sig, rr.text, map[string]any{"scenario": part, "report": rr.text})
		}
		return
	}
	dl := ribhist.Budget(tier, 120*time.Second, 25*time.Minute)
	bound := 2
	if tier == "thorough" {
		bound = 3
	}
	for _, sc := range scenarios() {
		if sc.name != part {
			continue
		}
		if os.Getenv("VERIF_MAPCHOICES") != "" || tier == "thorough" {
			// thorough: the order of every single map iteration is an environment choice in EVERY scenario (cost 1)
			body := sc.body
			sc.body = func() { rt.SetMapOrderChoices(true); body() }
		}
		exploreCost(rep, sc.name, sc.body, sc.check, bound-sc.lessBound, 1, dl)
	}
	for _, rr := range raceReports() {
		rep.Violate("C11/data-race/"+rr.sig, rr.text, map[string]any{"scenario": part, "report": rr.text})
	}
}

type raceReport struct{ sig, text string }

var frameRE = regexp.MustCompile(`^\s+(github\.com/openconfig/gribigo/\S+)\(\)$`)

// raceReports parses the detector's log (GORACE log_path=$VERIF_RACE_LOG) into one signature per report: the
// innermost gribigo functions of the two conflicting accesses.
func raceReports() []raceReport {
	prefix := os.Getenv("VERIF_RACE_LOG")
	if prefix == "" {
		return nil
	}
	files, _ := filepath.Glob(prefix + "*")
	seen := map[string]bool{}
	var out []raceReport
	for _, f := range files {
		fh, err := os.Open(f)
		if err != nil {
			continue
		}
		sc := bufio.NewScanner(fh)
		sc.Buffer(make([]byte, 1<<20), 1<<20)
		var block []string
		flush := func() {
			if len(block) == 0 {
				return
			}
			var tops []string
			inAccess := false
			for _, l := range block {
				switch {
				case strings.HasPrefix(l, "Write at") || strings.HasPrefix(l, "Read at") || strings.HasPrefix(l, "Previous write at") || strings.HasPrefix(l, "Previous read at"):
					inAccess = true
				case strings.HasPrefix(l, "Goroutine "):
					inAccess = false
				case inAccess:
					if m := frameRE.FindStringSubmatch(l); m != nil {
						tops = append(tops, strings.TrimPrefix(m[1], "github.com/openconfig/gribigo/"))
						inAccess = false
					}
				}
			}
			if len(tops) > 0 {
				sort.Strings(tops)
				sig := strings.Join(tops, "~")
				if !seen[sig] {
					seen[sig] = true
					txt := strings.Join(block, "\n")
					if len(txt) > 3000 {
						txt = txt[:3000]
					}
					out = append(out, raceReport{sig: sig, text: txt})
				}
			}
			block = nil
		}
		for sc.Scan() {
			l := sc.Text()
			if strings.HasPrefix(l, "WARNING: DATA RACE") {
				flush()
				block = []string{l}
				continue
			}
			if strings.HasPrefix(l, "==================") {
				flush()
				continue
			}
			if block != nil {
				block = append(block, l)
			}
		}
		flush()
		fh.Close()
	}
	sort.Slice(out, func(i, j int) bool { return out[i].sig < out[j].sig })
	return out
}

// ReplaySchedule re-executes one recorded schedule of a C11 scenario with tracing on, prints the interleaving and the
// harness events, and returns the oracle's verdicts for that single execution.
func ReplaySchedule(scenarioName string, schedule []string) []mc.Fail {
	var prefix []int
	for _, l := range schedule {
		l = strings.TrimSuffix(strings.TrimPrefix(l, "choices=["), "]")
		for _, f := range strings.Fields(l) {
			var n int
			fmt.Sscan(f, &n)
			prefix = append(prefix, n)
		}
	}
	for _, sc := range scenarios() {
		if sc.name != scenarioName {
			continue
		}
		x := rt.Run(rt.Options{Prefix: prefix, Trace: true, SwitchCost: 1}, sc.body)
		ci := 0
		for _, l := range x.Trace {
			fmt.Println("  " + l)
		}
		for i, c := range x.Choices {
			if c.Chosen != 0 {
				fmt.Printf("  deviation at choice %d (%s): alternative %d of %d  %s\n", i, c.Kind, c.Chosen, c.N, c.Label)
				ci++
			}
		}
		for _, e := range x.Events {
			fmt.Printf("  event T%d(%s) %s = %v\n", e.Thread, e.Name, e.Label, e.Val)
		}
		if x.Aborted != "" {
			fmt.Println("  aborted:", x.Aborted)
		}
		return sc.check(x)
	}
	fmt.Println("unknown scenario", scenarioName)
	return nil
}
