package streams

import (
	"fmt"

	"verif/mc"
)

// Replay re-executes one recorded history of a stream search (label and letter names from the replay file).
func Replay(prop, tier, label string, history []string) []mc.Fail {
	for _, ns := range registry[prop](tier) {
		if ns.label != label {
			continue
		}
		var hist []int
		for _, h := range history {
			found := false
			for i, l := range ns.o.Letters {
				if l.Name == h {
					hist = append(hist, i)
					found = true
				}
			}
			if !found {
				fmt.Printf("unknown letter %q\n", h)
				return nil
			}
		}
		var all []mc.Fail
		for n := 1; n <= len(hist); n++ {
			canon, fs := Execute(ns.o, hist[:n])
			fmt.Printf("step %d: %s\n    state: %.300s\n", n, history[n-1], canon)
			for _, f := range fs {
				fmt.Printf("    ORACLE %s: %s\n", f.Sig, f.What)
			}
			all = append(all, fs...)
		}
		return all
	}
	fmt.Printf("unknown search %q\n", label)
	return nil
}
