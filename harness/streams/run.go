package streams

import (
	"fmt"
	"time"

	"google.golang.org/grpc/codes"

	"verif/harness/ribhist"
	"verif/harness/sesshist"
	"verif/mc"
	"verif/report"

	spb "github.com/openconfig/gribi/v1/proto/service"
)

func entry(name string) int {
	for i, e := range sesshist.Entries {
		if e.Name == name {
			return i
		}
	}
	panic("streams: unknown entry " + name)
}

// c09Letters: the negotiation / violation alphabet for n sessions.
func c09Letters(n int, thorough bool) []Letter {
	var ls []Letter
	type pv struct {
		n string
		p *spb.SessionParameters
	}
	ps := []pv{{"SP/PRESERVE/RIB", pOK}, {"SP/PRESERVE/FIB", pFIB}, {"AP/DELETE/RIB", pAll}, {"AP/PRESERVE/RIB", pAllP}, {"SP/DELETE/RIB", pDel}}
	if thorough {
		ps = append(ps, pv{"AP/DELETE/FIB", pAllF}, pv{"AP/PRESERVE/FIB", pAlPF}, pv{"SP/DELETE/FIB", pDelF})
	}
	for s := 0; s < n; s++ {
		ls = append(ls, Letter{Name: fmt.Sprintf("s%d open", s), K: kOpen, S: s})
		for _, p := range ps {
			ls = append(ls, Letter{Name: fmt.Sprintf("s%d params %s", s, p.n), K: kParams, S: s, P: p.p})
		}
		for _, id := range []ID{{0, 0}, {0, 1}, {0, 2}, {1, 0}} {
			ls = append(ls, Letter{Name: fmt.Sprintf("s%d election %v", s, id), K: kElect, S: s, ID: id})
		}
		ls = append(ls, Letter{Name: fmt.Sprintf("s%d op[ADD nh1 stamp=own]", s), K: kOps, S: s, Ops: []OpT{{entry("ADD nh1"), stOwn}}})
		ls = append(ls, Letter{Name: fmt.Sprintf("s%d op[ADD nh1 stamp=none]", s), K: kOps, S: s, Ops: []OpT{{entry("ADD nh1"), stNil}}})
		ls = append(ls, Letter{Name: fmt.Sprintf("s%d op[ADD nh1 stamp=current]", s), K: kOps, S: s, Ops: []OpT{{entry("ADD nh1"), stCur}}})
		ls = append(ls, Letter{Name: fmt.Sprintf("s%d ops[ADD nh1 stamp=none, ADD nh2 stamp=own]", s), K: kOps, S: s, Ops: []OpT{{entry("ADD nh1"), stNil}, {entry("ADD nh2"), stOwn}}})
		for _, m := range []string{"params+election", "params+operation", "election+operation"} {
			ls = append(ls, Letter{Name: fmt.Sprintf("s%d %s", s, m), K: kMulti, S: s, Multi: m})
		}
		ls = append(ls, Letter{Name: fmt.Sprintf("s%d close", s), K: kClose, S: s})
	}
	return ls
}

// Names lists the letter names.
func Names(ls []Letter) []string {
	out := make([]string, len(ls))
	for i, l := range ls {
		out[i] = l.Name
	}
	return out
}

func search(rep *report.Report, label string, o *Options, depth int, dl time.Time) mc.Result {
	res := mc.BFS(mc.Config{Letters: Names(o.Letters), New: New(o), MaxDepth: depth, Deadline: dl, Workers: 1})
	ribhist.Merge(rep, label, res, depth)
	return res
}

// RunC09 decides C09.
func RunC09(rep *report.Report, tier string) {
	dl := ribhist.Budget(tier, 100*time.Second, 20*time.Minute)
	n, depth := 2, 6
	if tier == "thorough" {
		n, depth = 3, 7
	}
	ls := c09Letters(n, tier == "thorough")
	rep.Set("alphabet", Names(ls))
	o := &Options{Letters: ls, Sessions: n, Checks: Checks{Protocol: true}}
	search(rep, fmt.Sprintf("modify-streams/%d-sessions", n), o, depth, dl)
	// from a non-initial state: session 0 is the negotiated primary with an entry installed
	init := []Letter{ls[0], {K: kParams, S: 0, P: pOK}, {K: kElect, S: 0, ID: ID{Lo: 1}}, {K: kOps, S: 0, Ops: []OpT{{entry("ADD nh1"), stOwn}}}}
	o2 := &Options{Letters: ls, Sessions: n, Checks: Checks{Protocol: true}, Init: init}
	search(rep, fmt.Sprintf("modify-streams/%d-sessions/from-primary-established", n), o2, depth-1, dl)
}

var _ = codes.OK
