package streams

import (
	"context"
	"fmt"
	"strings"
	"time"

	"github.com/openconfig/gribigo/server"
	"google.golang.org/protobuf/proto"

	"verif/harness/ribx"
	"verif/rt"
	"verif/wire"

	"google.golang.org/grpc/codes"

	"verif/harness/ribhist"
	"verif/harness/sesshist"
	"verif/mc"
	"verif/report"

	spb "github.com/openconfig/gribi/v1/proto/service"
)

func entry(name string) int {
	for i, e := range sesshist.Entries {
		if e.Name == name {
			return i
		}
	}
	panic("streams: unknown entry " + name)
}

// c09Letters: the negotiation / violation alphabet for n sessions.
func c09Letters(n int, thorough bool) []Letter {
	var ls []Letter
	type pv struct {
		n string
		p *spb.SessionParameters
	}
	ps := []pv{{"SP/PRESERVE/RIB", pOK}, {"SP/PRESERVE/FIB", pFIB}, {"AP/DELETE/RIB", pAll}, {"AP/PRESERVE/RIB", pAllP}, {"SP/DELETE/RIB", pDel}}
	if thorough {
		ps = append(ps, pv{"AP/DELETE/FIB", pAllF}, pv{"AP/PRESERVE/FIB", pAlPF}, pv{"SP/DELETE/FIB", pDelF})
	}
	for s := 0; s < n; s++ {
		ls = append(ls, Letter{Name: fmt.Sprintf("s%d open", s), K: kOpen, S: s})
		for _, p := range ps {
			ls = append(ls, Letter{Name: fmt.Sprintf("s%d params %s", s, p.n), K: kParams, S: s, P: p.p})
		}
		for _, id := range []ID{{0, 0}, {0, 1}, {0, 2}, {1, 0}} {
			ls = append(ls, Letter{Name: fmt.Sprintf("s%d election %v", s, id), K: kElect, S: s, ID: id})
		}
		ls = append(ls, Letter{Name: fmt.Sprintf("s%d op[ADD nh1 stamp=own]", s), K: kOps, S: s, Ops: []OpT{{entry("ADD nh1"), stOwn}}})
		ls = append(ls, Letter{Name: fmt.Sprintf("s%d op[ADD nh1 stamp=none]", s), K: kOps, S: s, Ops: []OpT{{entry("ADD nh1"), stNil}}})
		ls = append(ls, Letter{Name: fmt.Sprintf("s%d op[ADD nh1 stamp=current]", s), K: kOps, S: s, Ops: []OpT{{entry("ADD nh1"), stCur}}})
		ls = append(ls, Letter{Name: fmt.Sprintf("s%d ops[ADD nh1 stamp=none, ADD nh2 stamp=own]", s), K: kOps, S: s, Ops: []OpT{{entry("ADD nh1"), stNil}, {entry("ADD nh2"), stOwn}}})
		for _, m := range []string{"params+election", "params+operation", "election+operation"} {
			ls = append(ls, Letter{Name: fmt.Sprintf("s%d %s", s, m), K: kMulti, S: s, Multi: m})
		}
		ls = append(ls, Letter{Name: fmt.Sprintf("s%d close", s), K: kClose, S: s})
	}
	return ls
}

// Names lists the letter names.
func Names(ls []Letter) []string {
	out := make([]string, len(ls))
	for i, l := range ls {
		out[i] = l.Name
	}
	return out
}

// named is one search of a property's check.
type named struct {
	label string
	o     *Options
	depth int
}

// registry: the searches of each property, per tier (parent and shard children must agree on it).
var registry = map[string]func(tier string) []named{"C09": c09Searches, "C10": c10Searches, "C06": c06Searches}

const parentLevels = 2

func account(rep *report.Report, o *Options, res mc.Result) {
	rep.Add("evaluations", res.Transitions)
	for i, n := range res.PerLetter {
		l := o.Letters[i]
		if l.K == kClose || l.K == kAbort || (l.K == kGet && l.GetK >= 0) || (l.K == kOps && l.Cut != codes.OK) {
			rep.Add("distinct_nontrivial", n)
		}
	}
}

// runSharded runs the searches of prop: the first levels in this process, the subtrees below them in shard
// processes (one controlled execution at a time per process).
func runSharded(rep *report.Report, prop, tier string, dl time.Time) {
	var parts []string
	for _, ns := range registry[prop](tier) {
		lv := parentLevels
		if ns.depth < lv {
			lv = ns.depth
		}
		res := mc.BFS(mc.Config{Letters: Names(ns.o.Letters), New: New(ns.o), MaxDepth: lv, Deadline: dl, Workers: 1, KeepFrontier: true})
		ribhist.Merge(rep, ns.label+"/levels-1-"+fmt.Sprint(lv), res, lv)
		account(rep, ns.o, res)
		rep.Set("search:"+ns.label+"/target-depth", ns.depth)
		if ns.depth > lv {
			for _, h := range res.Frontier {
				parts = append(parts, fmt.Sprintf("%s#%s", ns.label, strings.Trim(strings.Join(strings.Fields(fmt.Sprint(h)), ","), "[]")))
			}
		}
	}
	if prop == "C10" {
		parts = append(parts, "sched/cancel", "sched/unavailable")
	}
	rep.Set("shards", len(parts))
	rep.Shards(parts, 14, nil)
}

// Child runs one shard: the subtree of search label below the root history.
func Child(prop string) func(rep *report.Report, tier, part string) {
	return func(rep *report.Report, tier, part string) {
		if strings.HasPrefix(part, "sched/") {
			childC10Sched(rep, tier, part)
			return
		}
		label, roots, _ := strings.Cut(part, "#")
		var root []int
		for _, f := range strings.Split(roots, ",") {
			var n int
			fmt.Sscan(f, &n)
			root = append(root, n)
		}
		dl := ribhist.Budget(tier, 90*time.Second, 20*time.Minute)
		for _, ns := range registry[prop](tier) {
			if ns.label != label {
				continue
			}
			res := mc.BFS(mc.Config{Letters: Names(ns.o.Letters), New: New(ns.o), MaxDepth: ns.depth, Deadline: dl, Workers: 1, Root: root})
			rep.Add("states", res.States-1)
			rep.Add("transitions", res.Transitions)
			rep.Add("traces_validated_against_impl", res.Transitions)
			rep.Add("real_calls", res.RealCalls)
			rep.Add("revisits", res.Revisits)
			rep.And("exhaustive", res.Exhaustive)
			rep.Add("sub:"+label+":states", res.States-1)
			rep.Add("sub:"+label+":transitions", res.Transitions)
			if !res.Exhaustive {
				rep.Add("sub:"+label+":shards-cut-by-deadline", 1)
			}
			account(rep, ns.o, res)
			for _, smp := range res.Samples {
				rep.Sample(map[string]any{"search": label, "history": smp})
			}
			for _, f := range res.Fails {
				rep.Violate(f.Sig, f.What, map[string]any{"search": label, "history": f.History})
			}
		}
	}
}

func c09Searches(tier string) []named {
	n, depth := 2, 7
	if tier == "thorough" {
		n, depth = 3, 9
	}
	ls := c09Letters(n, tier == "thorough")
	o := &Options{Letters: ls, Sessions: n, Checks: Checks{Protocol: true}}
	// from a non-initial state: session 0 is the negotiated primary with an entry installed
	init := []Letter{ls[0], {K: kParams, S: 0, P: pOK}, {K: kElect, S: 0, ID: ID{Lo: 1}}, {K: kOps, S: 0, Ops: []OpT{{entry("ADD nh1"), stOwn}}}}
	o2 := &Options{Letters: ls, Sessions: n, Checks: Checks{Protocol: true}, Init: init}
	// ... and with an operation of the primary held for an unresolved reference (another session's violation must
	// not touch it)
	init3 := []Letter{ls[0], {K: kParams, S: 0, P: pOK}, {K: kElect, S: 0, ID: ID{Lo: 2}}, {K: kOps, S: 0, Ops: []OpT{{entry("ADD v4->1"), stOwn}}}}
	o3 := &Options{Letters: ls, Sessions: n, Checks: Checks{Protocol: true}, Init: init3}
	// ... and with a FORMER primary still connected that holds the same election id as the primary (session 1 took
	// over with an equal id and has an operation held): a violation by the former primary must not touch it either
	open1 := Letter{Name: "s1 open", K: kOpen, S: 1}
	init4 := []Letter{ls[0], {K: kParams, S: 0, P: pOK}, {K: kElect, S: 0, ID: ID{Lo: 2}}, open1, {K: kParams, S: 1, P: pOK}, {K: kElect, S: 1, ID: ID{Lo: 2}}, {K: kOps, S: 1, Ops: []OpT{{entry("ADD v4->1"), stOwn}}}}
	o4 := &Options{Letters: ls, Sessions: n, Checks: Checks{Protocol: true}, Init: init4}
	return []named{
		{fmt.Sprintf("modify-streams/%d-sessions", n), o, depth},
		{fmt.Sprintf("modify-streams/%d-sessions/from-primary-established", n), o2, depth - 1},
		{fmt.Sprintf("modify-streams/%d-sessions/from-primary-with-held-operation", n), o3, depth - 2},
		{fmt.Sprintf("modify-streams/%d-sessions/from-equal-id-takeover-with-held-operation", n), o4, depth - 3},
	}
}

// RunC09 decides C09.
func RunC09(rep *report.Report, tier string) {
	ss := c09Searches(tier)
	rep.Set("alphabet", Names(ss[0].o.Letters))
	runSharded(rep, "C09", tier, ribhist.Budget(tier, 100*time.Second, 20*time.Minute))
}

var _ = codes.OK

func c10Letters(n int, thorough bool) []Letter {
	var ls []Letter
	for s := 0; s < n; s++ {
		ls = append(ls, Letter{Name: fmt.Sprintf("s%d open", s), K: kOpen, S: s})
		ls = append(ls, Letter{Name: fmt.Sprintf("s%d params", s), K: kParams, S: s, P: pOK})
		ls = append(ls, Letter{Name: fmt.Sprintf("s%d election %v", s, ID{Lo: uint64(s + 1)}), K: kElect, S: s, ID: ID{Lo: uint64(s + 1)}})
		// the session raises its own id (operations it holds were stamped with the earlier one)
		ls = append(ls, Letter{Name: fmt.Sprintf("s%d election %v", s, ID{Lo: uint64(s + 5)}), K: kElect, S: s, ID: ID{Lo: uint64(s + 5)}})
		for _, e := range []string{"ADD nh1", "ADD nhg1{1}", "ADD v4->1", "ADD nh2"} {
			ls = append(ls, Letter{Name: fmt.Sprintf("s%d op[%s]", s, e), K: kOps, S: s, Ops: []OpT{{entry(e), stOwn}}})
		}
		batch := []OpT{{entry("ADD nh1"), stOwn}, {entry("ADD nh2"), stOwn}, {entry("ADD nhg1{1}"), stOwn}, {entry("ADD v4->1"), stOwn}}
		ls = append(ls, Letter{Name: fmt.Sprintf("s%d ops[ADD nh1, ADD nh2, ADD nhg1, ADD v4] then cancel at once", s), K: kOps, S: s, Ops: batch, Cut: codes.Canceled})
		ls = append(ls, Letter{Name: fmt.Sprintf("s%d ops[ADD nh1, ADD nh2] then transport failure at once", s), K: kOps, S: s, Ops: batch[:2], Cut: codes.Unavailable})
		ls = append(ls, Letter{Name: fmt.Sprintf("s%d half-close", s), K: kClose, S: s})
		ls = append(ls, Letter{Name: fmt.Sprintf("s%d cancel", s), K: kAbort, S: s, Code: codes.Canceled})
		ls = append(ls, Letter{Name: fmt.Sprintf("s%d transport-failure", s), K: kAbort, S: s, Code: codes.Unavailable})
	}
	ks := []int{0, 1, 2}
	if thorough {
		ks = append(ks, 3)
	}
	for _, k := range ks {
		ls = append(ls, Letter{Name: fmt.Sprintf("get(all,ALL) abandoned after %d responses (cancel)", k), K: kGet, GetK: k, GetAFT: spb.AFTType_ALL, Code: codes.Canceled})
		ls = append(ls, Letter{Name: fmt.Sprintf("get(DEFAULT,NEXTHOP) abandoned after %d responses (transport failure)", k), K: kGet, GetNI: D, GetK: k, GetAFT: spb.AFTType_NEXTHOP, Code: codes.Unavailable})
	}
	ls = append(ls, Letter{Name: "get(all,ALL) read to the end", K: kGet, GetK: -1, GetAFT: spb.AFTType_ALL})
	return ls
}

func c10Searches(tier string) []named {
	n, depth := 1, 7
	if tier == "thorough" {
		n, depth = 2, 9
	}
	ls := c10Letters(n, tier == "thorough")
	o := &Options{Letters: ls, Sessions: n, Checks: Checks{Disconnect: true}}
	// from a populated server: primary established with a chain of entries and a second next-hop installed
	l1 := c10Letters(1, false)
	pick := func(ls []Letter, names ...string) []Letter {
		var out []Letter
		for _, nm := range names {
			found := false
			for _, l := range ls {
				if l.Name == nm {
					out, found = append(out, l), true
					break
				}
			}
			if !found {
				panic("streams: no letter " + nm)
			}
		}
		return out
	}
	init := pick(l1, "s0 open", "s0 params", "s0 election (0,1)", "s0 op[ADD nh1]", "s0 op[ADD nh2]", "s0 op[ADD nhg1{1}]", "s0 op[ADD v4->1]")
	ls2 := c10Letters(2, tier == "thorough")
	o2 := &Options{Letters: ls2, Sessions: 2, Checks: Checks{Disconnect: true}, Init: init}
	// ... and with entries in BOTH network instances (a Get over all instances walks them one after the other)
	both := Letter{Name: "s0 ops[ADD v4@V->1@D, ADD v6@V->1@D]", K: kOps, S: 0, Ops: []OpT{{entry("ADD v4@V->1@D"), stOwn}, {entry("ADD v6@V->1@D"), stOwn}}}
	o3 := &Options{Letters: c10Letters(1, tier == "thorough"), Sessions: 1, Checks: Checks{Disconnect: true}, Init: append(append([]Letter{}, init...), both)}
	// ... and with a superseded session still connected while the primary has an operation held
	l2 := c10Letters(2, false)
	init4 := pick(l2, "s0 open", "s0 params", "s0 election (0,1)", "s1 open", "s1 params", "s1 election (0,2)", "s1 op[ADD v4->1]")
	o4 := &Options{Letters: ls2, Sessions: 2, Checks: Checks{Disconnect: true}, Init: init4}
	// ... and with a primary that holds an operation and has RAISED its own election id since (the held operation
	// carries the earlier id): when it goes away nothing of it may survive
	init5 := pick(l1, "s0 open", "s0 params", "s0 election (0,1)", "s0 op[ADD v4->1]", "s0 election (0,5)")
	o5 := &Options{Letters: ls2, Sessions: 2, Checks: Checks{Disconnect: true}, Init: init5}
	// ... and with four entries in EVERY table of the default instance: a Get of each single table abandoned after
	// 0 / 1 responses (the producer is stopped inside that table's loop), then the state comparison and the write probe
	var fill []OpT
	for _, e := range []string{"ADD nh1", "ADD nh2", "ADD nh3", "ADD nh4", "ADD nhg1{1}", "ADD nhg2{2}", "ADD nhg3{3}", "ADD nhg4{4}",
		"ADD v4->1", "ADD v4b->2", "ADD v4c->3", "ADD v4d->4", "ADD v6a->1", "ADD v6b->2", "ADD v6c->3", "ADD v6d->4",
		"ADD mpls100->1", "ADD mpls101->2", "ADD mpls102->3", "ADD mpls103->4"} {
		fill = append(fill, OpT{entry(e), stOwn})
	}
	init6 := append(pick(l1, "s0 open", "s0 params", "s0 election (0,1)"), Letter{Name: "s0 ops[four entries per table]", K: kOps, S: 0, Ops: fill})
	var ls6 []Letter
	for _, aft := range []spb.AFTType{spb.AFTType_IPV4, spb.AFTType_IPV6, spb.AFTType_MPLS, spb.AFTType_NEXTHOP_GROUP, spb.AFTType_NEXTHOP, spb.AFTType_ALL} {
		for _, k := range []int{0, 1} {
			ls6 = append(ls6, Letter{Name: fmt.Sprintf("get(DEFAULT,%s) abandoned after %d responses (cancel)", aft, k), K: kGet, GetNI: D, GetK: k, GetAFT: aft, Code: codes.Canceled})
		}
	}
	ls6 = append(ls6, pick(l1, "s0 op[ADD nh1]", "s0 half-close")...)
	o6 := &Options{Letters: ls6, Sessions: 1, Checks: Checks{Disconnect: true}, Init: init6}
	return []named{
		{"faults/1-session/from-every-table-populated/get-of-each-table-abandoned", o6, 2},
		{fmt.Sprintf("faults/%d-sessions/from-empty", n), o, depth},
		{"faults/2-sessions/from-chain-installed", o2, depth - 3},
		{"faults/1-session/from-both-instances-populated", o3, depth - 3},
		{"faults/2-sessions/from-superseded-session-and-held-operation", o4, 3},
		{"faults/2-sessions/from-primary-that-raised-its-id-holding-an-operation", o5, 3},
	}
}

// RunC10 decides C10.
func RunC10(rep *report.Report, tier string) {
	ss := c10Searches(tier)
	rep.Set("alphabet", Names(ss[2].o.Letters))
	rep.Set("rule", "cases are (history, letter) pairs executed on a fresh real server, histories being the shortest representatives of the distinct canonical server states; non-trivial = the letter is a fault (half-close, cancel, transport failure, request cut right after sending, Get abandoned after k responses), each followed by the state comparison and the liveness probe")
	runSharded(rep, "C10", tier, ribhist.Budget(tier, 100*time.Second, 20*time.Minute))
}

func c06Letters(n int, p *spb.SessionParameters) []Letter {
	var ls []Letter
	for s := 0; s < n; s++ {
		ls = append(ls, Letter{Name: fmt.Sprintf("s%d open", s), K: kOpen, S: s})
		ls = append(ls, Letter{Name: fmt.Sprintf("s%d params", s), K: kParams, S: s, P: p})
		// both sessions can announce both ids: hand-over by a higher AND by an equal id
		ls = append(ls, Letter{Name: fmt.Sprintf("s%d election (0,1)", s), K: kElect, S: s, ID: ID{Lo: 1}})
		ls = append(ls, Letter{Name: fmt.Sprintf("s%d election (0,2)", s), K: kElect, S: s, ID: ID{Lo: 2}})
		for _, e := range []string{"ADD nh1", "ADD nhg1{1}", "ADD v4->1", "REPLACE v4->2", "DELETE v4", "ADD nh2 @\"\""} {
			ls = append(ls, Letter{Name: fmt.Sprintf("s%d op[%s]", s, e), K: kOps, S: s, Ops: []OpT{{entry(e), stOwn}}})
		}
		ls = append(ls, Letter{Name: fmt.Sprintf("s%d ops[ADD v4->1, ADD nhg1{1}, ADD nh1]", s), K: kOps, S: s, Ops: []OpT{{entry("ADD v4->1"), stOwn}, {entry("ADD nhg1{1}"), stOwn}, {entry("ADD nh1"), stOwn}}})
		ls = append(ls, Letter{Name: fmt.Sprintf("s%d close", s), K: kClose, S: s})
	}
	return ls
}

func c06Searches(tier string) []named {
	depth := 6
	if tier == "thorough" {
		depth = 8
	}
	var out []named
	for _, cfg := range []struct {
		name string
		p    *spb.SessionParameters
	}{{"rib-ack", pOK}, {"fib-ack", pFIB}} {
		ls := c06Letters(2, cfg.p)
		o := &Options{Letters: ls, Sessions: 2, Checks: Checks{Answers: true, Primary: true}}
		if tier == "thorough" || cfg.name == "rib-ack" {
			out = append(out, named{"modify-streams/" + cfg.name + "/from-empty", o, depth - 1})
		}
		// session 0 is primary and has a held operation; session 1 takes over
		init := []Letter{ls[0], ls[1], ls[2], ls[6]} // open, params, election (0,1), op[ADD v4->1] (held)
		o2 := &Options{Letters: ls, Sessions: 2, Checks: Checks{Answers: true, Primary: true}, Init: init}
		out = append(out, named{"modify-streams/" + cfg.name + "/from-primary-with-held-operation", o2, depth - 1})
	}
	return out
}

// RunC06B is tier B of C06 (and C04): result accounting on real Modify streams including primary hand-over with
// held operations.
func RunC06B(rep *report.Report, tier string, dl time.Time) {
	runSharded(rep, "C06", tier, dl)
}

// schedBody: a session sends parameters, an election id and a batch of operations back to back and is then cut
// (cancel or transport failure); the point at which the cut takes effect relative to the server's three
// goroutines is decided by the explored schedule. Afterwards: session removed, election id is one the session
// announced (or none), server serviceable.
func schedBody(code codes.Code, fails *[]mc.Fail) func() {
	return func() {
		*fails = nil // (an execution that the explorer cut at an already expanded state is not judged)
		srv, err := server.New(server.WithVRFs([]string{V}))
		if err != nil {
			panic(err)
		}
		w := &world{o: &Options{Checks: Checks{Disconnect: true}}, srv: srv, stub: wire.New(srv), prim: -1, fold: ribx.NewModel(D, V)}
		w.ss = append(w.ss, &sess{})
		c, _ := w.stub.Modify(context.Background())
		st := w.stub.Modifies[0]
		c.Send(&spb.ModifyRequest{Params: proto.Clone(pOK).(*spb.SessionParameters)})
		c.Send(&spb.ModifyRequest{ElectionId: (&ID{Lo: 3}).Proto()})
		var ops []*spb.AFTOperation
		for i, e := range []string{"ADD nh1", "ADD nh2", "ADD nhg1{1}", "ADD v4->1"} {
			t := sesshist.Entries[entry(e)]
			op := ribx.Op(uint64(i+1), t.NI, t.Op, proto.Clone(t.E))
			op.ElectionId = (&ID{Lo: 3}).Proto()
			ops = append(ops, op)
		}
		c.Send(&spb.ModifyRequest{Operation: ops})
		st.Abort(code)
		rt.Quiesce()
		if n := len(srv.VerifSessions()); n != 0 {
			w.bad("C10/session-not-removed-after-disconnect", "after the cut %d sessions remain in the session table", n)
		}
		_, id := srv.VerifElection()
		if id != nil && (id.High != 0 || id.Low != 3) {
			w.bad("C10/disconnect-changed-state/election", "the election id after the cut is %v, the session announced (0,3)", id)
		}
		if id != nil {
			w.max = &ID{Lo: 3}
		}
		w.probe("a session cut under an explored schedule")
		*fails = w.fails
	}
}

// RunC10Sched is the schedule tier of C10 (child shards "sched/<code>").
// ChildC10Sched is the schedule tier of C10 (a session that sent a batch is cut under every schedule of the server's
// goroutines within the deviation bound, then the probe); the C11 command runs it too, in the -race build.
func ChildC10Sched(rep *report.Report, tier, part string) { childC10Sched(rep, tier, part) }

func childC10Sched(rep *report.Report, tier, part string) {
	code := codes.Canceled
	if strings.HasSuffix(part, "unavailable") {
		code = codes.Unavailable
	}
	bound := 2
	if tier == "thorough" {
		bound = 3
	}
	var fails []mc.Fail
	res := mc.DFS(mc.SchedConfig{Name: part, Body: schedBody(code, &fails), Bound: bound, SwitchCost: 1, Deadline: ribhist.Budget(tier, 90*time.Second, 15*time.Minute),
		Check: func(x *rt.Exec) []mc.Fail {
			out := fails
			fails = nil
			switch {
			case x.Crash != "":
				out = append(out, mc.Fail{Sig: "crash/" + crashSite(x.Crash), What: x.Crash})
			case x.Deadlock:
				out = append(out, mc.Fail{Sig: "C10/harness-blocked-after-cut", What: fmt.Sprintf("blocked: %v", x.Blocked)})
			}
			return out
		}, Outcome: func(x *rt.Exec) string { return fmt.Sprint(len(x.Blocked), x.Deadlock) }})
	if res.EngineError != "" {
		rep.EngineError("%s: %s", part, res.EngineError)
	}
	if res.CacheDiff != "" {
		rep.Set("cache_selftest:"+part, res.CacheDiff)
	}
	rep.Add("pruned_at_visited_states", res.Pruned)
	rep.Add("states", res.Execs)
	rep.Add("transitions", res.Steps)
	rep.Add("traces_validated_against_impl", res.Execs)
	rep.Add("evaluations", res.Execs)
	rep.Add("distinct_nontrivial", res.Execs)
	rep.And("exhaustive", res.Exhaustive)
	rep.Set("schedule-tier:"+part, map[string]any{"executions": res.Execs, "bound_target": bound, "bound_completed": res.BoundCompleted, "executions_per_bound": res.ExecsPerBound, "bounding": "deviations from the default scheduler"})
	for _, f := range res.Fails {
		rep.Violate(f.Sig, f.What, map[string]any{"scenario": part, "schedule": f.History})
	}
}
