package streams

import (
	"fmt"
	"time"

	"google.golang.org/grpc/codes"

	"verif/harness/ribhist"
	"verif/harness/sesshist"
	"verif/mc"
	"verif/report"

	spb "github.com/openconfig/gribi/v1/proto/service"
)

func entry(name string) int {
	for i, e := range sesshist.Entries {
		if e.Name == name {
			return i
		}
	}
	panic("streams: unknown entry " + name)
}

// c09Letters: the negotiation / violation alphabet for n sessions.
func c09Letters(n int, thorough bool) []Letter {
	var ls []Letter
	type pv struct {
		n string
		p *spb.SessionParameters
	}
	ps := []pv{{"SP/PRESERVE/RIB", pOK}, {"SP/PRESERVE/FIB", pFIB}, {"AP/DELETE/RIB", pAll}, {"AP/PRESERVE/RIB", pAllP}, {"SP/DELETE/RIB", pDel}}
	if thorough {
		ps = append(ps, pv{"AP/DELETE/FIB", pAllF}, pv{"AP/PRESERVE/FIB", pAlPF}, pv{"SP/DELETE/FIB", pDelF})
	}
	for s := 0; s < n; s++ {
		ls = append(ls, Letter{Name: fmt.Sprintf("s%d open", s), K: kOpen, S: s})
		for _, p := range ps {
			ls = append(ls, Letter{Name: fmt.Sprintf("s%d params %s", s, p.n), K: kParams, S: s, P: p.p})
		}
		for _, id := range []ID{{0, 0}, {0, 1}, {0, 2}, {1, 0}} {
			ls = append(ls, Letter{Name: fmt.Sprintf("s%d election %v", s, id), K: kElect, S: s, ID: id})
		}
		ls = append(ls, Letter{Name: fmt.Sprintf("s%d op[ADD nh1 stamp=own]", s), K: kOps, S: s, Ops: []OpT{{entry("ADD nh1"), stOwn}}})
		ls = append(ls, Letter{Name: fmt.Sprintf("s%d op[ADD nh1 stamp=none]", s), K: kOps, S: s, Ops: []OpT{{entry("ADD nh1"), stNil}}})
		ls = append(ls, Letter{Name: fmt.Sprintf("s%d op[ADD nh1 stamp=current]", s), K: kOps, S: s, Ops: []OpT{{entry("ADD nh1"), stCur}}})
		ls = append(ls, Letter{Name: fmt.Sprintf("s%d ops[ADD nh1 stamp=none, ADD nh2 stamp=own]", s), K: kOps, S: s, Ops: []OpT{{entry("ADD nh1"), stNil}, {entry("ADD nh2"), stOwn}}})
		for _, m := range []string{"params+election", "params+operation", "election+operation"} {
			ls = append(ls, Letter{Name: fmt.Sprintf("s%d %s", s, m), K: kMulti, S: s, Multi: m})
		}
		ls = append(ls, Letter{Name: fmt.Sprintf("s%d close", s), K: kClose, S: s})
	}
	return ls
}

// Names lists the letter names.
func Names(ls []Letter) []string {
	out := make([]string, len(ls))
	for i, l := range ls {
		out[i] = l.Name
	}
	return out
}

func search(rep *report.Report, label string, o *Options, depth int, dl time.Time) mc.Result {
	res := mc.BFS(mc.Config{Letters: Names(o.Letters), New: New(o), MaxDepth: depth, Deadline: dl, Workers: 1})
	ribhist.Merge(rep, label, res, depth)
	rep.Add("evaluations", res.Transitions)
	for i, n := range res.PerLetter {
		l := o.Letters[i]
		if l.K == kClose || l.K == kAbort || (l.K == kGet && l.GetK >= 0) || (l.K == kOps && l.Cut != codes.OK) {
			rep.Add("distinct_nontrivial", n)
		}
	}
	return res
}

// RunC09 decides C09.
func RunC09(rep *report.Report, tier string) {
	dl := ribhist.Budget(tier, 100*time.Second, 20*time.Minute)
	n, depth := 2, 6
	if tier == "thorough" {
		n, depth = 3, 7
	}
	ls := c09Letters(n, tier == "thorough")
	rep.Set("alphabet", Names(ls))
	o := &Options{Letters: ls, Sessions: n, Checks: Checks{Protocol: true}}
	search(rep, fmt.Sprintf("modify-streams/%d-sessions", n), o, depth, dl)
	// from a non-initial state: session 0 is the negotiated primary with an entry installed
	init := []Letter{ls[0], {K: kParams, S: 0, P: pOK}, {K: kElect, S: 0, ID: ID{Lo: 1}}, {K: kOps, S: 0, Ops: []OpT{{entry("ADD nh1"), stOwn}}}}
	o2 := &Options{Letters: ls, Sessions: n, Checks: Checks{Protocol: true}, Init: init}
	search(rep, fmt.Sprintf("modify-streams/%d-sessions/from-primary-established", n), o2, depth-1, dl)
}

var _ = codes.OK

func c10Letters(n int, thorough bool) []Letter {
	var ls []Letter
	for s := 0; s < n; s++ {
		ls = append(ls, Letter{Name: fmt.Sprintf("s%d open", s), K: kOpen, S: s})
		ls = append(ls, Letter{Name: fmt.Sprintf("s%d params", s), K: kParams, S: s, P: pOK})
		ls = append(ls, Letter{Name: fmt.Sprintf("s%d election %v", s, ID{Lo: uint64(s + 1)}), K: kElect, S: s, ID: ID{Lo: uint64(s + 1)}})
		for _, e := range []string{"ADD nh1", "ADD nhg1{1}", "ADD v4->1", "ADD nh2"} {
			ls = append(ls, Letter{Name: fmt.Sprintf("s%d op[%s]", s, e), K: kOps, S: s, Ops: []OpT{{entry(e), stOwn}}})
		}
		batch := []OpT{{entry("ADD nh1"), stOwn}, {entry("ADD nh2"), stOwn}, {entry("ADD nhg1{1}"), stOwn}, {entry("ADD v4->1"), stOwn}}
		ls = append(ls, Letter{Name: fmt.Sprintf("s%d ops[ADD nh1, ADD nh2, ADD nhg1, ADD v4] then cancel at once", s), K: kOps, S: s, Ops: batch, Cut: codes.Canceled})
		ls = append(ls, Letter{Name: fmt.Sprintf("s%d ops[ADD nh1, ADD nh2] then transport failure at once", s), K: kOps, S: s, Ops: batch[:2], Cut: codes.Unavailable})
		ls = append(ls, Letter{Name: fmt.Sprintf("s%d half-close", s), K: kClose, S: s})
		ls = append(ls, Letter{Name: fmt.Sprintf("s%d cancel", s), K: kAbort, S: s, Code: codes.Canceled})
		ls = append(ls, Letter{Name: fmt.Sprintf("s%d transport-failure", s), K: kAbort, S: s, Code: codes.Unavailable})
	}
	ks := []int{0, 1, 2}
	if thorough {
		ks = append(ks, 3)
	}
	for _, k := range ks {
		ls = append(ls, Letter{Name: fmt.Sprintf("get(all,ALL) abandoned after %d responses (cancel)", k), K: kGet, GetK: k, GetAFT: spb.AFTType_ALL, Code: codes.Canceled})
		ls = append(ls, Letter{Name: fmt.Sprintf("get(DEFAULT,NEXTHOP) abandoned after %d responses (transport failure)", k), K: kGet, GetNI: D, GetK: k, GetAFT: spb.AFTType_NEXTHOP, Code: codes.Unavailable})
	}
	ls = append(ls, Letter{Name: "get(all,ALL) read to the end", K: kGet, GetK: -1, GetAFT: spb.AFTType_ALL})
	return ls
}

// RunC10 decides C10.
func RunC10(rep *report.Report, tier string) {
	dl := ribhist.Budget(tier, 100*time.Second, 20*time.Minute)
	n, depth := 1, 6
	if tier == "thorough" {
		n, depth = 2, 7
	}
	ls := c10Letters(n, tier == "thorough")
	rep.Set("alphabet", Names(ls))
	rep.Set("rule", "cases are (history, letter) pairs executed on a fresh real server, histories being the shortest representatives of the distinct canonical server states; non-trivial = the letter is a fault (half-close, cancel, transport failure, request cut right after sending, Get abandoned after k responses), each followed by the state comparison and the liveness probe")
	o := &Options{Letters: ls, Sessions: n, Checks: Checks{Disconnect: true}}
	search(rep, fmt.Sprintf("faults/%d-sessions/from-empty", n), o, depth, dl)
	// from a populated server: primary established with a chain of entries and a second next-hop installed
	l1 := c10Letters(1, false)
	init := []Letter{l1[0], l1[1], l1[2], l1[3], l1[6], l1[4], l1[5]} // open, params, election, nh1, nh2, nhg1, v4
	ls2 := c10Letters(2, tier == "thorough")
	o2 := &Options{Letters: ls2, Sessions: 2, Checks: Checks{Disconnect: true}, Init: init}
	search(rep, "faults/2-sessions/from-chain-installed", o2, depth-3, dl)
}
