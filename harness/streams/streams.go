// Package streams is the history-BFS harness over REAL Modify / Get streams: the server's Modify handler with its
// receive loop and result pump runs as threads of the controlled runtime behind the in-memory transport, every
// message is run to quiescence under the default schedule, and faults (half-close, cancellation, transport
// failure, abandoned Gets) are letters of the alphabet. It serves C09 (negotiation / protocol violations), C10
// (disconnects: state preserved, server stays serviceable — probe decided by the scheduler's deadlock verdict),
// and tier B of C06 and C04.
package streams

import (
	"context"
	"fmt"
	"io"
	"sort"
	"strings"

	"github.com/openconfig/gribigo/server"
	"google.golang.org/grpc/codes"
	"google.golang.org/grpc/status"
	"google.golang.org/protobuf/proto"

	"verif/harness/ribx"
	"verif/harness/sesshist"
	"verif/mc"
	"verif/rt"
	"verif/wire"

	spb "github.com/openconfig/gribi/v1/proto/service"
)

const (
	D = "DEFAULT"
	V = "VRF"
)

type ID = sesshist.ID

type kind int

const (
	kOpen kind = iota
	kParams
	kElect
	kOps
	kMulti // message populating two of params / election id / operation
	kClose // CloseSend
	kAbort // cancellation or transport failure of the Modify stream
	kGet   // Get(ni) read k responses, then abandon (or read to the end when k < 0)
)

type stamp int

const (
	stNil stamp = iota
	stOwn
	stCur
)

// Letter is one step.
type Letter struct {
	Name   string
	K      kind
	S      int
	P      *spb.SessionParameters
	ID     ID
	Ops    []OpT
	Multi  string     // "params+election", "params+operation", "election+operation"
	Code   codes.Code // abort: Canceled / Unavailable
	GetNI  string
	GetK   int
	GetAFT spb.AFTType
	// Cut (kOps only): the stream is aborted with this code right after the request was sent, before the
	// server has processed it (a cut in the middle of a request instead of between messages).
	Cut codes.Code
}

// OpT is an operation template inside a kOps letter.
type OpT struct {
	Entry int // index into sesshist.Entries
	St    stamp
}

// Checks selects oracles.
type Checks struct {
	Protocol   bool // C09
	Disconnect bool // C10
	Answers    bool // C06 tier B
	Primary    bool // C04 tier B
}

// Options configures the harness.
type Options struct {
	Letters  []Letter
	Sessions int
	Checks   Checks
	// Init letters are applied (unchecked) before the history.
	Init []Letter
}

var (
	pOK   = &spb.SessionParameters{Redundancy: spb.SessionParameters_SINGLE_PRIMARY, Persistence: spb.SessionParameters_PRESERVE}
	pFIB  = &spb.SessionParameters{Redundancy: spb.SessionParameters_SINGLE_PRIMARY, Persistence: spb.SessionParameters_PRESERVE, AckType: spb.SessionParameters_RIB_AND_FIB_ACK}
	pAll  = &spb.SessionParameters{Redundancy: spb.SessionParameters_ALL_PRIMARY, Persistence: spb.SessionParameters_DELETE}
	pAllP = &spb.SessionParameters{Redundancy: spb.SessionParameters_ALL_PRIMARY, Persistence: spb.SessionParameters_PRESERVE}
	pDel  = &spb.SessionParameters{Redundancy: spb.SessionParameters_SINGLE_PRIMARY, Persistence: spb.SessionParameters_DELETE}
	pAllF = &spb.SessionParameters{Redundancy: spb.SessionParameters_ALL_PRIMARY, Persistence: spb.SessionParameters_DELETE, AckType: spb.SessionParameters_RIB_AND_FIB_ACK}
	pAlPF = &spb.SessionParameters{Redundancy: spb.SessionParameters_ALL_PRIMARY, Persistence: spb.SessionParameters_PRESERVE, AckType: spb.SessionParameters_RIB_AND_FIB_ACK}
	pDelF = &spb.SessionParameters{Redundancy: spb.SessionParameters_SINGLE_PRIMARY, Persistence: spb.SessionParameters_DELETE, AckType: spb.SessionParameters_RIB_AND_FIB_ACK}
)

func supported(p *spb.SessionParameters) bool {
	return p.GetRedundancy() == spb.SessionParameters_SINGLE_PRIMARY && p.GetPersistence() == spb.SessionParameters_PRESERVE
}

// sess is the harness' view of one session (model + stream).
type sess struct {
	open       bool // the model says the stream is alive
	st         *wire.ModifyStream
	cli        modifyClient
	sid        string // server-side session id (vuuid, deterministic)
	msgs       int
	params     *spb.SessionParameters // negotiated
	last       *ID
	nextOp     uint64
	sent       map[uint64]*spb.AFTOperation
	got        map[uint64][]spb.AFTResult_Status
	ended      bool  // the stream delivered its final status
	status     error // final status (io.EOF for OK)
	responses  []*spb.ModifyResponse
	newResp    int // responses received during the current step
	lostPrim   bool
	everOpened bool
}

type modifyClient interface {
	Send(*spb.ModifyRequest) error
	Recv() (*spb.ModifyResponse, error)
	CloseSend() error
}

type world struct {
	leavingPrim bool // the session of the disconnect being handled was the primary
	o           *Options
	srv         *server.Server
	stub        *wire.Stub
	ss          []*sess
	max         *ID
	prim        int // session index, -1 none, -2 closed
	fold        *ribx.Model
	fails       []mc.Fail
	gets        int
	// wedged: the probe found the server blocked; nothing that takes server locks may be called any more
	wedged bool
	// preProbeCanon: canonical state when the (first) probe of this execution started
	preProbeCanon string
}

func (w *world) bad(sig, format string, a ...any) {
	w.fails = append(w.fails, mc.Fail{Sig: sig, What: fmt.Sprintf(format, a...)})
}

type expect struct {
	terminate bool
	codes     map[codes.Code]bool
	reasons   map[spb.ModifyRPCErrorDetails_Reason]bool // acceptable detail reasons (nil = any)
	mayOK     bool                                      // the message may also be accepted
	why       []string
}

func (e *expect) add(why string, reason spb.ModifyRPCErrorDetails_Reason, cs ...codes.Code) {
	e.terminate = true
	if e.codes == nil {
		e.codes = map[codes.Code]bool{}
		e.reasons = map[spb.ModifyRPCErrorDetails_Reason]bool{}
	}
	for _, c := range cs {
		e.codes[c] = true
	}
	e.reasons[reason] = true
	e.why = append(e.why, why)
}

func eqParams(a, b *spb.SessionParameters) bool { return proto.Equal(a, b) }

// expectation of a message per the specification / compliance suite (sets where they allow alternatives).
func (w *world) expectFor(si int, req *spb.ModifyRequest) expect {
	s := w.ss[si]
	var e expect
	n := 0
	if req.Params != nil {
		n++
	}
	if req.ElectionId != nil {
		n++
	}
	if len(req.Operation) > 0 {
		n++
	}
	if n > 1 {
		e.add("more than one of params / election id / operation", spb.ModifyRPCErrorDetails_UNKNOWN, codes.InvalidArgument)
		return e
	}
	switch {
	case req.Params != nil:
		if s.msgs > 0 {
			e.add("params not the first message / repeated", spb.ModifyRPCErrorDetails_MODIFY_NOT_ALLOWED, codes.FailedPrecondition)
		}
		if !supported(req.Params) {
			e.add("unsupported parameters", spb.ModifyRPCErrorDetails_UNSUPPORTED_PARAMS, codes.FailedPrecondition, codes.Unimplemented)
		}
		idle := false
		for j, o := range w.ss {
			if j == si || !o.open {
				continue
			}
			if o.params == nil {
				idle = true
			} else if !eqParams(o.params, req.Params) {
				e.add("parameters differ from another live session", spb.ModifyRPCErrorDetails_PARAMS_DIFFER_FROM_OTHER_CLIENTS, codes.FailedPrecondition)
			}
		}
		if idle && !e.terminate {
			// another live session has not negotiated yet: the statement does not say whether it constrains
			e.add("(a live session without parameters exists)", spb.ModifyRPCErrorDetails_PARAMS_DIFFER_FROM_OTHER_CLIENTS, codes.FailedPrecondition)
			e.mayOK = true
		}
	case req.ElectionId != nil:
		if s.params == nil || s.params.GetRedundancy() != spb.SessionParameters_SINGLE_PRIMARY {
			e.add("election id on a session that has not negotiated SINGLE_PRIMARY", spb.ModifyRPCErrorDetails_ELECTION_ID_IN_ALL_PRIMARY, codes.FailedPrecondition, codes.Unimplemented)
		}
		if req.ElectionId.High == 0 && req.ElectionId.Low == 0 {
			e.add("zero election id", spb.ModifyRPCErrorDetails_UNKNOWN, codes.InvalidArgument)
		}
	default:
		if s.params == nil || s.params.GetRedundancy() != spb.SessionParameters_SINGLE_PRIMARY {
			e.add("operation on a session that has not negotiated SINGLE_PRIMARY", spb.ModifyRPCErrorDetails_UNSUPPORTED_PARAMS, codes.Unimplemented, codes.FailedPrecondition)
			return e
		}
		for _, op := range req.Operation {
			if op.ElectionId == nil {
				e.add("operation without an election id", spb.ModifyRPCErrorDetails_UNKNOWN, codes.FailedPrecondition, codes.InvalidArgument)
			}
		}
	}
	return e
}

type snap struct {
	rib, held, elec, sessions string
}

func (w *world) snapshot(except int) snap {
	m, err := ribx.Snapshot(w.srv.VerifRIB())
	rc := "ERR"
	if err == nil {
		rc = m.Canon()
	}
	master, id := w.srv.VerifElection()
	var ss []string
	for sid, v := range w.srv.VerifSessions() {
		if except >= 0 && w.ss[except].sid == sid {
			continue
		}
		ss = append(ss, fmt.Sprintf("%s:%v/%v/%v/%v/%v", sid, v.Persist, v.ExpectElecID, v.FIBAck, v.SetParams, v.LastElecID))
	}
	sort.Strings(ss)
	return snap{rib: rc, held: heldRaw(w.srv), elec: fmt.Sprintf("%s/%v", master, id), sessions: strings.Join(ss, ";")}
}

func heldRaw(s *server.Server) string {
	var sb strings.Builder
	for _, p := range s.VerifRIB().VerifPending() {
		k, key, pl := ribx.Describe(p.Op)
		fmt.Fprintf(&sb, "%d:%s|%s|%s|%s|%s;", p.ID, p.NI, p.Op.GetOp(), k, key, ribx.CanonPayload(pl))
	}
	return sb.String()
}

// drain reads everything the server has sent on every stream (call at a quiescent point).
func (w *world) drain() {
	for _, s := range w.ss {
		s.newResp = 0
		if s.st == nil || s.ended {
			continue
		}
		for {
			m, err, ok := s.st.TryRecv()
			if !ok {
				break
			}
			if err != nil {
				s.ended, s.status = true, err
				break
			}
			s.responses = append(s.responses, m)
			s.newResp++
			for _, r := range m.GetResult() {
				s.got[r.GetId()] = append(s.got[r.GetId()], r.GetStatus())
			}
		}
	}
}

func (w *world) sessionGone(si int) {
	s := w.ss[si]
	s.open = false
	if w.prim == si {
		w.prim = -2
	}
}

// step performs one letter; check says whether oracles are evaluated.
func (w *world) step(l Letter, check bool) {
	if l.K == kGet {
		w.get(l, check)
		return
	}
	if l.S >= len(w.ss) {
		return
	}
	s := w.ss[l.S]
	switch l.K {
	case kOpen:
		if s.open || (s.st != nil && !s.ended) {
			return
		}
		before := map[string]bool{}
		for sid := range w.srv.VerifSessions() {
			before[sid] = true
		}
		c, err := w.stub.Modify(context.Background())
		if err != nil {
			w.bad("engine/modify-open", "%v", err)
			return
		}
		*s = sess{open: true, cli: c, st: w.stub.Modifies[len(w.stub.Modifies)-1], sent: map[uint64]*spb.AFTOperation{}, got: map[uint64][]spb.AFTResult_Status{}, everOpened: true}
		rt.Quiesce()
		for sid := range w.srv.VerifSessions() {
			if !before[sid] {
				s.sid = sid
			}
		}
		if s.sid == "" && check {
			w.bad("C09/session-not-registered", "a new Modify stream did not create a session")
		}
		return
	case kClose:
		if !s.open {
			return
		}
		before := w.snapshot(l.S)
		w.leavingPrim = w.prim == l.S
		s.cli.CloseSend()
		rt.Quiesce()
		w.drain()
		w.sessionGone(l.S)
		if check {
			w.afterDisconnect(l, l.S, before, "half-close")
			if !s.ended || s.status != io.EOF {
				w.bad("C10/half-close-not-answered-ok", "after CloseSend the RPC ended=%v with %v, want OK", s.ended, s.status)
			}
		}
		return
	case kAbort:
		if !s.open {
			return
		}
		before := w.snapshot(l.S)
		w.leavingPrim = w.prim == l.S
		s.st.Abort(l.Code)
		rt.Quiesce()
		w.drain()
		s.ended = true
		w.sessionGone(l.S)
		if check {
			w.afterDisconnect(l, l.S, before, l.Code.String())
		}
		return
	}
	if !s.open {
		return
	}
	// a message
	req := &spb.ModifyRequest{}
	stampOf := func(st stamp) *spb.Uint128 {
		switch st {
		case stOwn:
			if s.last != nil {
				return s.last.Proto()
			}
			return (&ID{Lo: 1}).Proto()
		case stCur:
			if w.max != nil {
				return w.max.Proto()
			}
			return (&ID{Lo: 1}).Proto()
		}
		return nil
	}
	mkOps := func(ts []OpT) []*spb.AFTOperation {
		var out []*spb.AFTOperation
		for _, t := range ts {
			e := sesshist.Entries[t.Entry]
			s.nextOp++
			op := ribx.Op(s.nextOp, e.NI, e.Op, proto.Clone(e.E))
			op.ElectionId = stampOf(t.St)
			out = append(out, op)
		}
		return out
	}
	switch l.K {
	case kParams:
		req.Params = proto.Clone(l.P).(*spb.SessionParameters)
	case kElect:
		req.ElectionId = l.ID.Proto()
	case kOps:
		req.Operation = mkOps(l.Ops)
	case kMulti:
		switch l.Multi {
		case "params+election":
			req.Params, req.ElectionId = proto.Clone(pOK).(*spb.SessionParameters), (&ID{Lo: 1}).Proto()
		case "params+operation":
			req.Params, req.Operation = proto.Clone(pOK).(*spb.SessionParameters), mkOps([]OpT{{Entry: 0, St: stOwn}})
		case "election+operation":
			req.ElectionId, req.Operation = (&ID{Lo: 1}).Proto(), mkOps([]OpT{{Entry: 0, St: stOwn}})
		}
	}
	exp := w.expectFor(l.S, req)
	authorised := map[uint64]bool{}
	for _, op := range req.Operation {
		s.sent[op.Id] = op
		st := op.ElectionId
		authorised[op.Id] = !exp.terminate && w.prim == l.S && s.last != nil && st != nil && (ID{Hi: st.High, Lo: st.Low}) == *s.last && w.max != nil && *s.last == *w.max
	}
	before := w.snapshot(l.S)
	heldBefore := map[uint64]*spb.AFTOperation{}
	for _, p := range w.srv.VerifRIB().VerifPending() {
		heldBefore[p.ID] = p.Op
	}
	otherCounts := make([]int, len(w.ss))
	for i, o := range w.ss {
		otherCounts[i] = len(o.responses)
	}
	if err := s.cli.Send(req); err != nil {
		if check {
			w.bad("engine/send-on-live-stream-failed", "Send on a stream the model believes alive: %v", err)
		}
		return
	}
	s.msgs++
	if l.K == kOps && l.Cut != codes.OK {
		s.st.Abort(l.Cut)
		rt.Quiesce()
		w.drain()
		s.ended = true
		w.sessionGone(l.S)
		afterCut := w.snapshot(l.S)
		if check {
			if before.elec != afterCut.elec {
				w.bad("C10/disconnect-changed-state/election", "%s: the election state changed: %s -> %s", l.Name, before.elec, afterCut.elec)
			}
			if _, still := w.srv.VerifSessions()[s.sid]; still {
				w.bad("C10/session-not-removed-after-disconnect", "%s: session %s is still in the session table", l.Name, s.sid)
			}
			if w.o.Checks.Disconnect {
				w.probe(l.Name)
			}
		}
		// the operations in flight may or may not have been applied before the cut: resynchronise the fold
		if !w.wedged {
			if m, err := ribx.Snapshot(w.srv.VerifRIB()); err == nil {
				w.fold = m
			}
		}
		return
	}
	rt.Quiesce()
	w.drain()
	after := w.snapshot(l.S)

	// --- update the model and fold acknowledgements
	nresp := s.newResp
	newR := s.responses[len(s.responses)-nresp:]
	sentNow := map[uint64]bool{}
	for _, op := range req.Operation {
		sentNow[op.Id] = true
	}
	for _, m := range newR {
		for _, r := range m.GetResult() {
			if r.GetStatus() != spb.AFTResult_RIB_PROGRAMMED {
				continue
			}
			var op *spb.AFTOperation
			if sentNow[r.GetId()] {
				op, sentNow[r.GetId()] = s.sent[r.GetId()], false
			} else {
				op = heldBefore[r.GetId()]
			}
			if op != nil {
				w.fold.Apply(op)
			}
		}
	}
	terminated := s.ended
	wasPrim := w.prim == l.S
	if terminated {
		w.sessionGone(l.S)
	}
	if !exp.terminate && !terminated {
		switch l.K {
		case kParams:
			s.params = proto.Clone(l.P).(*spb.SessionParameters)
		case kElect:
			id := l.ID
			s.last = &id
			if w.max == nil || id.Cmp(*w.max) >= 0 {
				w.max = &id
				if w.prim >= 0 && w.prim != l.S {
					w.ss[w.prim].lostPrim = true
				}
				w.prim = l.S
			}
		}
	}
	if exp.mayOK && !terminated && l.K == kParams {
		s.params = proto.Clone(l.P).(*spb.SessionParameters)
	}
	if !check {
		return
	}

	// --- oracles
	c := w.o.Checks
	if c.Protocol {
		switch {
		case exp.terminate && !exp.mayOK && !terminated:
			w.bad("C09/violation-not-terminated/"+strings.Join(exp.why, "+"), "%s: the RPC must end with one of %v (%v) but it is still open (responses: %v)", l.Name, codeList(exp.codes), exp.why, texts(newR))
		case exp.terminate && terminated:
			st := status.Convert(s.status)
			if s.status == io.EOF || !exp.codes[st.Code()] {
				w.bad(fmt.Sprintf("C09/wrong-status/%s/got-%s", strings.Join(exp.why, "+"), codeOf(s.status)), "%s: the RPC ended with %v; the specification / compliance suite require one of %v", l.Name, s.status, codeList(exp.codes))
			} else {
				for _, d := range st.Details() {
					if md, ok := d.(*spb.ModifyRPCErrorDetails); ok && md.GetReason() != spb.ModifyRPCErrorDetails_UNKNOWN && !exp.reasons[md.GetReason()] {
						w.bad(fmt.Sprintf("C09/wrong-reason/%s/got-%s", strings.Join(exp.why, "+"), md.GetReason()), "%s: ModifyRPCErrorDetails reason %v, want one of %v", l.Name, md.GetReason(), exp.reasons)
					}
				}
			}
			if len(newR) > 0 {
				w.bad("C09/response-before-terminating-status", "%s: %d responses were sent before the RPC was ended: %v", l.Name, len(newR), texts(newR))
			}
			if wasPrim && after.held == "" {
				// the violating session was the primary: its RPC ended, and the operations held for it are
				// cancelled with its session (specification 4.1.3) - that is not a side effect on others
				before.held = ""
			}
			if before != after {
				w.bad("C09/violation-had-side-effects/"+diffSnap(before, after), "%s (%v): server state changed: %+v -> %+v", l.Name, exp.why, before, after)
			}
			if _, still := w.srv.VerifSessions()[s.sid]; still {
				w.bad("C09/failed-session-not-removed", "%s: the session %s is still in the session table after its RPC ended", l.Name, s.sid)
			}
			// "... does not constrain later sessions": whatever the failed session left behind (a lock, a table
			// entry, cached parameters) shows when a fresh session goes through a whole exchange
			w.probeAs(l.Name+" (terminating violation)", "C09/server-wedged-after-violation", "C09/server-not-serviceable-after-violation/")
			if !w.wedged {
				// (the probe programmed an entry and flushed: the fold follows the server from here)
				if m, err := ribx.Snapshot(w.srv.VerifRIB()); err == nil {
					w.fold = m
				}
			}
			for i, o := range w.ss {
				if i != l.S && len(o.responses) != otherCounts[i] {
					w.bad("C09/violation-disturbed-another-session", "%s on session %d: session %d received %d messages", l.Name, l.S, i, len(o.responses)-otherCounts[i])
				}
				if i != l.S && o.open && o.ended {
					w.bad("C09/violation-terminated-another-session", "%s on session %d ended session %d with %v", l.Name, l.S, i, o.status)
				}
			}
		case !exp.terminate && terminated:
			// operations may legitimately end the RPC for election reasons (C04): stamp above the current id, or
			// a session that never announced. Everything else must not terminate.
			if !(l.K == kOps && !allAuthorised(authorised)) {
				w.bad(fmt.Sprintf("C09/valid-message-terminated-rpc/%s", kindName(l.K)), "%s: a valid message ended the RPC with %v", l.Name, s.status)
			}
		case !exp.terminate && !terminated:
			switch l.K {
			case kParams:
				if len(newR) != 1 || newR[0].GetSessionParamsResult().GetStatus() != spb.SessionParametersResult_OK {
					w.bad("C09/valid-params-not-acknowledged", "%s: want one SessionParametersResult OK, got %v", l.Name, texts(newR))
				}
			case kElect:
				if len(newR) != 1 || newR[0].GetElectionId() == nil {
					w.bad("C09/valid-election-not-acknowledged", "%s: want one election response, got %v", l.Name, texts(newR))
				} else if got := newR[0].GetElectionId(); w.max == nil || got.High != w.max.Hi || got.Low != w.max.Lo {
					w.bad("C05/response-is-not-running-maximum", "%s: response %v, maximum announced %v", l.Name, got, w.max)
				}
			}
		}
	}
	if c.Primary && l.K == kOps {
		for _, op := range req.Operation {
			if authorised[op.Id] {
				continue
			}
			for _, st := range s.got[op.Id] {
				if st != spb.AFTResult_FAILED {
					w.bad("C04/unauthorised-operation-acknowledged", "%s: operation %d answered %v (primary=%d last=%v max=%v)", l.Name, op.Id, st, w.prim, s.last, w.max)
				}
			}
		}
		if !anyAuthorised(authorised) && (before.rib != after.rib || before.held != after.held || before.elec != after.elec) {
			w.bad("C04/unauthorised-operation-changed-state/"+diffSnap(before, after), "%s changed server state", l.Name)
		}
	}
	if c.Answers {
		w.answers(l)
	}
	w.stateChecks(l)
}

func allAuthorised(m map[uint64]bool) bool {
	for _, v := range m {
		if !v {
			return false
		}
	}
	return true
}
func anyAuthorised(m map[uint64]bool) bool {
	for _, v := range m {
		if v {
			return true
		}
	}
	return false
}

func kindName(k kind) string {
	return [...]string{"open", "params", "election", "operation", "multi", "close", "abort", "get"}[k]
}

func codeOf(err error) string {
	if err == io.EOF || err == nil {
		return "OK"
	}
	return status.Code(err).String()
}

func codeList(m map[codes.Code]bool) []string {
	var out []string
	for c := range m {
		out = append(out, c.String())
	}
	sort.Strings(out)
	return out
}

func texts(ms []*spb.ModifyResponse) []string {
	var out []string
	for _, m := range ms {
		out = append(out, ribx.Text(m))
	}
	return out
}

func diffSnap(a, b snap) string {
	var d []string
	if a.rib != b.rib {
		d = append(d, "rib")
	}
	if a.held != b.held {
		d = append(d, "held")
	}
	if a.elec != b.elec {
		d = append(d, "election")
	}
	if a.sessions != b.sessions {
		d = append(d, "other-sessions")
	}
	return strings.Join(d, "+")
}

// answers: per-stream result accounting (C06).
func (w *world) answers(l Letter) {
	held := map[uint64]bool{}
	for _, p := range w.srv.VerifRIB().VerifPending() {
		held[p.ID] = true
	}
	fib := false
	for i, s := range w.ss {
		if !s.everOpened {
			continue
		}
		if s.params != nil {
			fib = s.params.GetAckType() == spb.SessionParameters_RIB_AND_FIB_ACK
		}
		for id, sts := range s.got {
			if _, mine := s.sent[id]; !mine {
				w.bad("C06/result-for-id-not-sent-on-this-stream", "after %s: session %d received %v for operation id %d which it never sent", l.Name, i, sts, id)
				continue
			}
			if sig, what := sesshist.AnswerRule(sts, fib); sig != "" {
				w.bad("C06/"+sig, "after %s: session %d operation %d (%s): results %v: %s", l.Name, i, id, ribx.Text(s.sent[id]), sts, what)
			}
		}
		if s.open && !s.ended && w.prim == i && !s.lostPrim {
			for id, op := range s.sent {
				if len(s.got[id]) == 0 && !held[id] {
					w.bad("C06/operation-never-answered", "after %s: session %d (primary) operation %d (%s) has no result and is not held", l.Name, i, id, ribx.Text(op))
				}
			}
		}
	}
}

func (w *world) stateChecks(l Letter) {
	real, err := ribx.Snapshot(w.srv.VerifRIB())
	if err != nil {
		w.bad("rib/snapshot-error", "%v", err)
		return
	}
	if d := ribx.Diff(w.fold, real); d != "" {
		w.bad("C01/server-contents-differ-from-fold/"+ribx.DiffKinds(w.fold, real), "after %s: installed state differs from the fold of RIB_PROGRAMMED results: %s", l.Name, d)
	}
}

// afterDisconnect: C10 oracle — state preserved, session cleaned, server serviceable.
func (w *world) afterDisconnect(l Letter, si int, before snap, how string) {
	after := w.snapshot(si)
	if w.o.Checks.Disconnect || w.o.Checks.Protocol {
		if before.rib != after.rib || before.elec != after.elec {
			w.bad("C10/disconnect-changed-state/"+diffSnap(before, after), "%s (%s): installed entries / election id changed: %+v -> %+v", l.Name, how, before, after)
		}
		// the operations held for the primary go with the primary's session, never with another session's
		if w.leavingPrim && after.held != "" {
			// (specification 4.1.3: the pending operations of a primary are cancelled when its session ends; one that
			// survives is installed and answered on the NEXT primary's stream as soon as its reference resolves)
			w.bad("C10/held-operations-survive-the-primarys-disconnect", "%s (%s): the primary went away but operations are still held: %s", l.Name, how, after.held)
		}
		if !w.leavingPrim && before.held != after.held {
			w.bad("C10/disconnect-of-non-primary-changed-held-operations", "%s (%s): the session that went away was not the primary, but the held operations changed: %s -> %s", l.Name, how, before.held, after.held)
		}
		if _, still := w.srv.VerifSessions()[w.ss[si].sid]; still {
			w.bad("C10/session-not-removed-after-disconnect", "%s (%s): session %s is still in the session table", l.Name, how, w.ss[si].sid)
		}
	}
	if w.o.Checks.Disconnect {
		w.probe(l.Name + " (" + how + ")")
	}
}

// probe: a fresh session must be able to negotiate, win the election, program an entry, Get it and Flush. Run as
// a separate thread so that a wedged server shows up as "probe did not finish" (deadlock verdict of the
// scheduler), not as a hang of the harness.
func (w *world) probe(after string) {
	w.probeAs(after, "C10/server-wedged-after-disconnect", "C10/server-not-serviceable-after-disconnect/")
}

// probeAs: a fresh session must be able to negotiate, win the election, program an entry, read it back and flush;
// "blocked forever" is the scheduler's verdict.
func (w *world) probeAs(after, sigWedged, sigFail string) {
	// the probe changes the server (it takes the primary role, programs an entry and flushes): the canonical state of
	// the history, by which the search deduplicates, is the state BEFORE the probe
	if w.preProbeCanon == "" {
		w.preProbeCanon = w.canon()
	}
	done := make(chan string, 1)
	rt.Go("probe", func() {
		fail := func(f string, a ...any) { rt.Send(done, fmt.Sprintf(f, a...)) }
		c, err := w.stub.Modify(context.Background())
		if err != nil {
			fail("open: %v", err)
			return
		}
		// parameters must equal those of the live sessions that negotiated; when none is left the new session is free
		// to choose, and chooses what no session of the history asked for (FIB acknowledgements): parameters of
		// departed sessions must not constrain it
		p := proto.Clone(pOK).(*spb.SessionParameters)
		p.AckType = spb.SessionParameters_RIB_AND_FIB_ACK
		for _, o := range w.ss {
			if o.open && o.params != nil {
				p = o.params
			}
		}
		if err := c.Send(&spb.ModifyRequest{Params: proto.Clone(p).(*spb.SessionParameters)}); err != nil {
			fail("send params: %v", err)
			return
		}
		if r, err := c.Recv(); err != nil || r.GetSessionParamsResult() == nil {
			// a live idle session may legitimately block negotiation (see expectFor); then nothing more to probe
			for _, o := range w.ss {
				if o.open && o.params == nil {
					rt.Send(done, "")
					return
				}
			}
			fail("negotiate: %v %v", r, err)
			return
		}
		id := ID{Hi: 9, Lo: 9}
		if w.max != nil && w.max.Cmp(id) > 0 {
			id = ID{Hi: w.max.Hi + 1}
		}
		c.Send(&spb.ModifyRequest{ElectionId: id.Proto()})
		if r, err := c.Recv(); err != nil || r.GetElectionId() == nil {
			fail("election: %v %v", r, err)
			return
		}
		op := ribx.Op(4242, D, spb.AFTOperation_ADD, ribx.NHEntry(4242, "4.2.4.2"))
		op.ElectionId = id.Proto()
		c.Send(&spb.ModifyRequest{Operation: []*spb.AFTOperation{op}})
		r, err := c.Recv()
		if err != nil || len(r.GetResult()) == 0 || r.GetResult()[0].GetStatus() != spb.AFTResult_RIB_PROGRAMMED {
			fail("ADD by the new primary: %v %v", r, err)
			return
		}
		g, err := w.stub.Get(context.Background(), &spb.GetRequest{NetworkInstance: &spb.GetRequest_All{All: &spb.Empty{}}, Aft: spb.AFTType_NEXTHOP})
		if err != nil {
			fail("get: %v", err)
			return
		}
		found := false
		for {
			gr, err := g.Recv()
			if err == io.EOF {
				break
			}
			if err != nil {
				fail("get recv: %v", err)
				return
			}
			for _, e := range gr.GetEntry() {
				if e.GetNextHop().GetIndex() == 4242 {
					found = true
				}
			}
		}
		if !found {
			fail("the entry programmed by the probe is not returned by Get")
			return
		}
		if _, err := w.stub.Flush(context.Background(), &spb.FlushRequest{NetworkInstance: &spb.FlushRequest_All{All: &spb.Empty{}}, Election: &spb.FlushRequest_Id{Id: id.Proto()}}); err != nil {
			fail("flush: %v", err)
			return
		}
		c.CloseSend()
		rt.Send(done, "")
	})
	rt.Quiesce()
	sel := rt.NewSelect(true)
	cd := rt.SelRecv(sel, done)
	if sel.Wait() != 0 {
		w.bad(sigWedged, "after %s a fresh session could not complete negotiate / election / ADD / Get / Flush: the probe is blocked forever", after)
		w.wedged = true
		return
	}
	if msg := cd.Val(); msg != "" {
		w.bad(sigFail+strings.SplitN(msg, ":", 2)[0], "after %s the probe failed at %s", after, msg)
	}
}

// get: a Get RPC whose stream is read for k responses and then abandoned (k < 0: read to the end).
func (w *world) get(l Letter, check bool) {
	before := w.snapshot(-1)
	req := &spb.GetRequest{NetworkInstance: &spb.GetRequest_All{All: &spb.Empty{}}, Aft: l.GetAFT}
	if l.GetNI != "" {
		req.NetworkInstance = &spb.GetRequest_Name{Name: l.GetNI}
	}
	c, err := w.stub.Get(context.Background(), req)
	if err != nil {
		w.bad("engine/get-open", "%v", err)
		return
	}
	st := w.stub.Gets[len(w.stub.Gets)-1]
	n := 0
	for l.GetK < 0 || n < l.GetK {
		_, err := c.Recv()
		if err != nil {
			break
		}
		n++
	}
	if l.GetK >= 0 {
		st.Abort(l.Code)
	}
	rt.Quiesce()
	if !check {
		return
	}
	after := w.snapshot(-1)
	if before != after {
		w.bad("C10/get-changed-state", "%s changed server state", l.Name)
	}
	if w.o.Checks.Disconnect {
		if !st.HandlerDone() {
			w.bad("C10/get-handler-never-returns", "%s: the Get handler is still running after the client went away", l.Name)
		}
		w.probe(l.Name)
	}
}

// --- mc.Instance over whole-history executions ---------------------------------------------------------------

type inst struct {
	o     *Options
	hist  []int
	canon string
	fails []mc.Fail
}

// New returns the constructor for mc.Config (Workers must be 1: one controlled execution at a time).
func New(o *Options) func() mc.Instance {
	return func() mc.Instance { return &inst{o: o} }
}

func (in *inst) Apply(l int, check bool) []mc.Fail {
	in.hist = append(in.hist, l)
	if !check {
		return nil
	}
	in.canon, in.fails = Execute(in.o, in.hist)
	return in.fails
}

func (in *inst) Canon() string {
	if in.canon == "" {
		in.canon, _ = Execute(in.o, in.hist)
	}
	return in.canon
}
func (in *inst) Obs() string { return "" }

// Execute runs a whole history on a fresh server under the controlled runtime (default schedule) and returns the
// canonical state and the oracle failures of the last step.
func Execute(o *Options, hist []int) (string, []mc.Fail) {
	var w *world
	var canon string
	x := rt.Run(rt.Options{}, func() {
		srv, err := server.New(server.WithVRFs([]string{V}))
		if err != nil {
			panic(err)
		}
		w = &world{o: o, srv: srv, stub: wire.New(srv), prim: -1, fold: ribx.NewModel(D, V)}
		for i := 0; i < o.Sessions; i++ {
			w.ss = append(w.ss, &sess{})
		}
		for _, l := range o.Init {
			w.step(l, false)
		}
		for i, li := range hist {
			w.step(o.Letters[li], i == len(hist)-1)
		}
		switch {
		case w.preProbeCanon != "":
			canon = w.preProbeCanon
		case !w.wedged:
			canon = w.canon()
		}
	})
	var fails []mc.Fail
	if w != nil {
		fails = w.fails
	}
	switch {
	case x.Crash != "":
		fails = append(fails, mc.Fail{Sig: "crash/" + crashSite(x.Crash), What: x.Crash})
	case x.Deadlock:
		fails = append(fails, mc.Fail{Sig: "harness-blocked", What: fmt.Sprintf("the harness thread itself is blocked: %v", x.Blocked)})
	case x.Aborted != "":
		fails = append(fails, mc.Fail{Sig: "engine/" + x.Aborted, What: x.Aborted})
	}
	if canon == "" {
		canon = fmt.Sprintf("aborted-%v", hist)
	}
	return canon, fails
}

func crashSite(stack string) string {
	for _, l := range strings.Split(stack, "\n") {
		l = strings.TrimSpace(l)
		if strings.HasPrefix(l, "github.com/openconfig/gribigo/") && strings.Contains(l, "(") {
			return strings.TrimPrefix(l[:strings.LastIndex(l, "(")], "github.com/openconfig/gribigo/")
		}
	}
	return "unknown"
}

func (w *world) canon() string {
	real, err := ribx.Snapshot(w.srv.VerifRIB())
	rc := "ERR"
	if err == nil {
		rc = real.Canon()
	}
	var ss []string
	for i, s := range w.ss {
		if !s.open {
			continue
		}
		var gs []string
		for id, g := range s.got {
			gs = append(gs, fmt.Sprintf("%d=%v", id, g))
		}
		sort.Strings(gs)
		var un []string
		for id := range s.sent {
			if len(s.got[id]) == 0 {
				un = append(un, fmt.Sprint(id))
			}
		}
		sort.Strings(un)
		ss = append(ss, fmt.Sprintf("{msgs=%d params=%s last=%v prim=%v lost=%v next=%d got=%v un=%v}", min(s.msgs, 1), ribx.Text(s.params), s.last, w.prim == i, s.lostPrim, s.nextOp, gs, un))
	}
	sort.Strings(ss)
	primState := "live"
	switch w.prim {
	case -1:
		primState = "none"
	case -2:
		primState = "closed"
	}
	// server-side threads that are still alive (leaks) are part of the state
	return fmt.Sprintf("max=%v prim=%s sessions=%v nserver=%d rib=%s held=%s fold=%s", w.max, primState, ss, len(w.srv.VerifSessions()), rc, heldRaw(w.srv), w.fold.Canon())
}
