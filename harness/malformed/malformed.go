// Package malformed decides C12 by a bounded-exhaustive mutation closure (not fuzzing): every single (thorough:
// every pair of) structured mutation of one valid message per entry kind and operation type, of Get and of Flush
// requests, applied in three pre-states to the real handlers. Oracle: no panic, the call returns, a rejected
// request changes nothing, and the definitely-invalid classes named by the property are rejected.
package malformed

import (
	"context"
	"fmt"
	"io"
	"net/netip"
	"runtime/debug"
	"sort"
	"strings"
	"sync"
	"time"

	"github.com/openconfig/gribigo/server"
	"google.golang.org/grpc/status"
	"google.golang.org/protobuf/proto"
	"google.golang.org/protobuf/reflect/protoreflect"

	"verif/harness/ribx"
	"verif/report"
	"verif/rt"
	"verif/wire"

	aftpb "github.com/openconfig/gribi/v1/proto/gribi_aft"
	spb "github.com/openconfig/gribi/v1/proto/service"
)

const (
	D = "DEFAULT"
	V = "VRF"
)

var elec = &spb.Uint128{Low: 1}

func m(i, w uint64) [2]uint64 { return [2]uint64{i, w} }

// seeds: one valid message per entry kind x operation type.
func seeds() []*spb.AFTOperation {
	nh := ribx.NHEntry(5, "192.0.2.5")
	nh.NextHop.InterfaceRef = &aftpb.Afts_NextHop_InterfaceRef{Interface: ribx.S("eth0"), Subinterface: ribx.U(1)}
	nh.NextHop.PushedMplsLabelStack = []*aftpb.Afts_NextHop_PushedMplsLabelStackUnion{{PushedMplsLabelStackUint64: 100}}
	nhg := ribx.NHGEntry(5, 0, m(1, 1), m(2, 3))
	nhg.NextHopGroup.BackupNextHopGroup = ribx.U(1)
	// the group the seeds point at (5) is installed AND referenced in the "chain-installed" pre-state, and so are
	// the keys of the seeds: shortcuts keyed on "exists" or "is referenced" are therefore taken.
	v4 := ribx.V4Entry("198.51.100.0/24", 5, D, []byte{1, 2})
	v6 := ribx.V6Entry("2001:db8:1::/48", 5, "", nil)
	mp := ribx.MPLSEntry(200, 5, "", nil)
	mp.LabelEntry.PoppedMplsLabelStack = []*aftpb.Afts_LabelEntry_PoppedMplsLabelStackUnion{{PoppedMplsLabelStackUint64: 200}}
	var out []*spb.AFTOperation
	id := uint64(1000)
	for _, e := range []proto.Message{nh, nhg, v4, v6, mp} {
		for _, t := range []spb.AFTOperation_Operation{spb.AFTOperation_ADD, spb.AFTOperation_REPLACE, spb.AFTOperation_DELETE} {
			id++
			op := ribx.Op(id, D, t, proto.Clone(e))
			op.ElectionId = elec
			out = append(out, op)
		}
	}
	return out
}

// mutation is a function that edits a clone of the seed in place and describes itself.
type mutation struct {
	desc  string
	apply func(root proto.Message) bool // false: not applicable (path vanished)
}

type step struct {
	fd  protoreflect.FieldDescriptor
	idx int // list index, -1 if not a list element
}

func descend(root protoreflect.Message, path []step) (protoreflect.Message, bool) {
	cur := root
	for _, s := range path {
		if !cur.Has(s.fd) {
			return nil, false
		}
		v := cur.Get(s.fd)
		if s.idx >= 0 {
			l := v.List()
			if s.idx >= l.Len() {
				return nil, false
			}
			cur = l.Get(s.idx).Message()
		} else {
			cur = v.Message()
		}
	}
	return cur, true
}

func pathStr(path []step, fd protoreflect.FieldDescriptor) string {
	var sb strings.Builder
	for _, s := range path {
		sb.WriteString(string(s.fd.Name()))
		if s.idx >= 0 {
			fmt.Fprintf(&sb, "[%d]", s.idx)
		}
		sb.WriteString(".")
	}
	sb.WriteString(string(fd.Name()))
	return sb.String()
}

var skipFields = map[string]bool{"id": true, "election_id": true}

// mutationsOf enumerates the single mutations of msg by a protoreflect walk over its populated fields and the
// unpopulated fields of its populated messages.
func mutationsOf(msg proto.Message) []mutation {
	var out []mutation
	_, isOp := msg.(*spb.AFTOperation) // (id and election id of an operation are not content; those of a Flush are)
	var walk func(m protoreflect.Message, path []step, depth int)
	walk = func(m protoreflect.Message, path []step, depth int) {
		fds := m.Descriptor().Fields()
		for i := 0; i < fds.Len(); i++ {
			fd := fds.Get(i)
			if depth == 0 && isOp && skipFields[string(fd.Name())] {
				continue
			}
			p := append([]step{}, path...)
			add := func(desc string, f func(pm protoreflect.Message)) {
				name := pathStr(p, fd) + ": " + desc
				out = append(out, mutation{desc: name, apply: func(root proto.Message) bool {
					pm, ok := descend(root.ProtoReflect(), p)
					if !ok {
						return false
					}
					f(pm)
					return true
				}})
			}
			switch {
			case fd.IsList():
				if m.Has(fd) {
					add("empty list", func(pm protoreflect.Message) { pm.Clear(fd) })
					add("duplicate first element", func(pm protoreflect.Message) {
						l := pm.Mutable(fd).List()
						if l.Len() > 0 {
							if fd.Kind() == protoreflect.MessageKind {
								l.Append(protoreflect.ValueOfMessage(proto.Clone(l.Get(0).Message().Interface()).ProtoReflect()))
							} else {
								l.Append(l.Get(0))
							}
						}
					})
					if fd.Kind() == protoreflect.MessageKind {
						l := m.Get(fd).List()
						for j := 0; j < l.Len(); j++ {
							walk(l.Get(j).Message(), append(p, step{fd, j}), depth+1)
						}
					}
				}
			case fd.Kind() == protoreflect.MessageKind:
				if m.Has(fd) {
					add("clear sub-message", func(pm protoreflect.Message) { pm.Clear(fd) })
					add("empty sub-message", func(pm protoreflect.Message) { pm.Set(fd, protoreflect.ValueOfMessage(pm.NewField(fd).Message())) })
					walk(m.Get(fd).Message(), append(p, step{fd, -1}), depth+1)
				} else if fd.ContainingOneof() != nil {
					add("switch oneof arm to empty "+string(fd.Name()), func(pm protoreflect.Message) {
						pm.Set(fd, protoreflect.ValueOfMessage(pm.NewField(fd).Message()))
					})
				}
			case fd.Kind() == protoreflect.EnumKind:
				add("undefined enum number 99", func(pm protoreflect.Message) { pm.Set(fd, protoreflect.ValueOfEnum(99)) })
				add("enum number 0", func(pm protoreflect.Message) { pm.Set(fd, protoreflect.ValueOfEnum(0)) })
				if m.Has(fd) || fd.ContainingOneof() == nil {
					vals := fd.Enum().Values()
					add("last defined enum value", func(pm protoreflect.Message) { pm.Set(fd, protoreflect.ValueOfEnum(vals.Get(vals.Len()-1).Number())) })
				}
			case fd.Kind() == protoreflect.StringKind:
				for _, sv := range []string{"", "NOPE", "not-a-prefix", "300.1.1.1/8", "10.0.0.0/33", "10.0.0.0", "2001:db8::/129", "::ffff:1.2.3.4/24", strings.Repeat("x", 300), "\xff\xfe\x80"} {
					sv := sv
					add(fmt.Sprintf("string %q", short(sv)), func(pm protoreflect.Message) { pm.Set(fd, protoreflect.ValueOfString(sv)) })
				}
			case fd.Kind() == protoreflect.BytesKind:
				add("empty bytes", func(pm protoreflect.Message) { pm.Set(fd, protoreflect.ValueOfBytes([]byte{})) })
				add("long bytes", func(pm protoreflect.Message) { pm.Set(fd, protoreflect.ValueOfBytes(make([]byte, 4096))) })
			case fd.Kind() == protoreflect.Uint64Kind || fd.Kind() == protoreflect.Fixed64Kind:
				for _, n := range []uint64{0, 1, 15, 1<<20 - 1, 1 << 20, 1<<32 - 1, 1 << 32, 1<<32 + 200, 1<<64 - 1} {
					n := n
					add(fmt.Sprintf("uint %d", n), func(pm protoreflect.Message) { pm.Set(fd, protoreflect.ValueOfUint64(n)) })
				}
			case fd.Kind() == protoreflect.Uint32Kind:
				for _, n := range []uint32{0, 1, 1<<32 - 1} {
					n := n
					add(fmt.Sprintf("uint32 %d", n), func(pm protoreflect.Message) { pm.Set(fd, protoreflect.ValueOfUint32(n)) })
				}
			case fd.Kind() == protoreflect.BoolKind:
				add("bool flip", func(pm protoreflect.Message) { pm.Set(fd, protoreflect.ValueOfBool(!pm.Get(fd).Bool())) })
			}
		}
	}
	walk(msg.ProtoReflect(), nil, 0)
	return out
}

func short(s string) string {
	if len(s) > 20 {
		return s[:17] + "..."
	}
	return s
}

// definitelyInvalid classifies a mutated operation against the classes the property enumerates. The server is
// configured with network instances DEFAULT and VRF.
func definitelyInvalid(op *spb.AFTOperation) (bool, string) {
	switch op.GetOp() {
	case spb.AFTOperation_ADD, spb.AFTOperation_REPLACE, spb.AFTOperation_DELETE:
	default:
		return true, "unsupported-operation-type"
	}
	if ni := op.GetNetworkInstance(); ni != D && ni != V {
		return true, "unknown-or-empty-network-instance"
	}
	isDel := op.GetOp() == spb.AFTOperation_DELETE
	badPfx := func(p string, v6 bool) bool {
		pp, err := netip.ParsePrefix(p)
		if err != nil {
			return true
		}
		return pp.Addr().Is4() == v6 && !(v6 && pp.Addr().Is4In6())
	}
	top := func(nhg uint64, ni string, hasPayload bool) (bool, string) {
		if isDel {
			return false, ""
		}
		switch {
		case !hasPayload:
			return true, "missing-entry-payload"
		case nhg == 0:
			return true, "zero-next-hop-group"
		case ni != "" && ni != D && ni != V:
			return true, "unknown-group-network-instance"
		}
		return false, ""
	}
	switch t := op.GetEntry().(type) {
	case nil:
		return true, "missing-entry"
	case *spb.AFTOperation_Ipv4:
		if t.Ipv4 == nil {
			return true, "nil-entry"
		}
		if !isDel && badPfx(t.Ipv4.GetPrefix(), false) {
			return true, "invalid-ipv4-prefix"
		}
		return top(t.Ipv4.GetIpv4Entry().GetNextHopGroup().GetValue(), t.Ipv4.GetIpv4Entry().GetNextHopGroupNetworkInstance().GetValue(), t.Ipv4.GetIpv4Entry() != nil)
	case *spb.AFTOperation_Ipv6:
		if t.Ipv6 == nil {
			return true, "nil-entry"
		}
		if !isDel && badPfx(t.Ipv6.GetPrefix(), true) {
			return true, "invalid-ipv6-prefix"
		}
		return top(t.Ipv6.GetIpv6Entry().GetNextHopGroup().GetValue(), t.Ipv6.GetIpv6Entry().GetNextHopGroupNetworkInstance().GetValue(), t.Ipv6.GetIpv6Entry() != nil)
	case *spb.AFTOperation_Mpls:
		if t.Mpls == nil {
			return true, "nil-entry"
		}
		// For a DELETE a syntactically bad key that names nothing may be answered either way (idempotent delete
		// of a key that is not installed versus invalid content); only a label that does not fit the 32-bit
		// key space, which used to alias an installed label, must be rejected.
		if _, ok := t.Mpls.GetLabel().(*aftpb.Afts_LabelEntryKey_LabelUint64); ok && (t.Mpls.GetLabelUint64() > 1<<32-1 || (!isDel && t.Mpls.GetLabelUint64() > 1<<20-1)) {
			return true, "label-out-of-range"
		}
		if t.Mpls.GetLabel() == nil {
			return true, "missing-label"
		}
		return top(t.Mpls.GetLabelEntry().GetNextHopGroup().GetValue(), t.Mpls.GetLabelEntry().GetNextHopGroupNetworkInstance().GetValue(), t.Mpls.GetLabelEntry() != nil)
	case *spb.AFTOperation_NextHopGroup:
		if t.NextHopGroup == nil {
			return true, "nil-entry"
		}
		if t.NextHopGroup.GetId() == 0 {
			return true, "zero-group-id"
		}
		if isDel {
			return false, ""
		}
		if len(t.NextHopGroup.GetNextHopGroup().GetNextHop()) == 0 {
			return true, "empty-group"
		}
		for _, n := range t.NextHopGroup.GetNextHopGroup().GetNextHop() {
			if n.GetIndex() == 0 {
				return true, "zero-next-hop-index-in-group"
			}
		}
	case *spb.AFTOperation_NextHop:
		if t.NextHop == nil {
			return true, "nil-entry"
		}
		if t.NextHop.GetIndex() == 0 {
			return true, "zero-next-hop-index"
		}
	default:
		return true, "unsupported-entry-kind"
	}
	return false, ""
}

// preStates: how the server is prepared before the mutated request.
var preStates = []struct {
	name  string
	steps []struct {
		ni string
		e  proto.Message
	}
}{
	{name: "empty"},
	{name: "chain-installed", steps: []struct {
		ni string
		e  proto.Message
	}{{D, ribx.NHEntry(1, "1.1.1.1")}, {D, ribx.NHEntry(2, "2.2.2.2")}, {D, ribx.NHEntry(5, "5.5.5.5")}, {D, ribx.NHGEntry(1, 0, m(1, 1))}, {D, ribx.NHGEntry(5, 0, m(5, 1))},
		{D, ribx.V4Entry("198.51.100.0/24", 5, "", nil)}, {D, ribx.V6Entry("2001:db8:1::/48", 5, "", nil)}, {D, ribx.MPLSEntry(200, 5, "", nil)}, {V, ribx.NHEntry(1, "3.3.3.3")}, {V, ribx.NHGEntry(1, 0, m(1, 1))}}},
	{name: "held-operations", steps: []struct {
		ni string
		e  proto.Message
	}{{D, ribx.NHEntry(1, "1.1.1.1")}, {D, ribx.V4Entry("203.0.113.0/24", 9, "", nil)}, {D, ribx.NHGEntry(8, 0, m(8, 1))}, {D, ribx.V6Entry("2001:db8:9::/48", 9, "", nil)}}},
	// operations are held FOR THE KEYS OF THE SEEDS (their group 9 / next-hop 7 is missing): a rejected operation
	// on a key must leave what is held for that key alone
	{name: "seed-keys-held", steps: []struct {
		ni string
		e  proto.Message
	}{{D, ribx.NHEntry(1, "1.1.1.1")}, {D, ribx.V4Entry("198.51.100.0/24", 9, "", nil)}, {D, ribx.V6Entry("2001:db8:1::/48", 9, "", nil)}, {D, ribx.MPLSEntry(200, 9, "", nil)}, {D, ribx.NHGEntry(5, 0, m(7, 1))}}},
}

func build(pi int) (*server.Server, error) {
	s, err := server.New(server.WithVRFs([]string{V}))
	if err != nil {
		return nil, err
	}
	if err := s.VerifNewClient("c0"); err != nil {
		return nil, err
	}
	p := &spb.SessionParameters{Redundancy: spb.SessionParameters_SINGLE_PRIMARY, Persistence: spb.SessionParameters_PRESERVE}
	if _, err := s.VerifCheckParams("c0", p, false); err != nil {
		return nil, err
	}
	if err := s.VerifUpdateParams("c0", p); err != nil {
		return nil, err
	}
	if _, err := s.VerifRunElection("c0", elec); err != nil {
		return nil, err
	}
	for i, st := range preStates[pi].steps {
		if _, _, err := s.VerifRIB().AddEntry(st.ni, ribx.Op(uint64(i+1), st.ni, spb.AFTOperation_ADD, proto.Clone(st.e))); err != nil {
			return nil, err
		}
	}
	return s, nil
}

func canon(s *server.Server) string {
	mm, err := ribx.Snapshot(s.VerifRIB())
	if err != nil {
		return "ERR " + err.Error()
	}
	return mm.Canon() + "||" + ribx.PendingCanon(s.VerifRIB()) + "||" + ribx.RefCanon(s.VerifRIB())
}

type fail struct{ sig, what string }

// oneModify applies one (mutated) operation through the real doModify in pre-state pi.
func oneModify(pi int, op *spb.AFTOperation, desc string) (string, []fail) {
	s, err := build(pi)
	if err != nil {
		return "engine", []fail{{"engine/build", err.Error()}}
	}
	before := canon(s)
	resCh := make(chan *spb.ModifyResponse, 64)
	errCh := make(chan error, 64)
	var crash string
	func() {
		defer func() {
			if r := recover(); r != nil {
				crash = fmt.Sprintf("%v\n%s", r, debug.Stack())
			}
		}()
		s.VerifDoModify("c0", []*spb.AFTOperation{op}, resCh, errCh)
	}()
	name := fmt.Sprintf("pre-state=%s %s", preStates[pi].name, desc)
	if crash != "" {
		return "panic", []fail{{"C12/panic/" + panicSite(crash), fmt.Sprintf("%s: the server panicked on operation {%s}: %s", name, ribx.Text(op), firstLine(crash))}}
	}
	close(resCh)
	close(errCh)
	var out []fail
	verdict := "none"
	for r := range resCh {
		for _, ar := range r.GetResult() {
			if ar.GetId() != op.GetId() {
				continue
			}
			switch ar.GetStatus() {
			case spb.AFTResult_FAILED:
				verdict = "FAILED"
			case spb.AFTResult_RIB_PROGRAMMED:
				if verdict == "none" {
					verdict = "OK"
				}
			}
		}
	}
	for e := range errCh {
		verdict = "RPC-ERROR/" + status.Code(e).String()
	}
	after := canon(s)
	inv, class := definitelyInvalid(op)
	rejected := verdict == "FAILED" || strings.HasPrefix(verdict, "RPC-ERROR")
	if rejected && before != after {
		out = append(out, fail{"C12/rejected-operation-changed-state", fmt.Sprintf("%s: operation {%s} was answered %s but the RIB / held set / counters changed", name, ribx.Text(op), verdict)})
	}
	if inv && !rejected {
		out = append(out, fail{"C12/invalid-operation-not-rejected/" + class + "/" + op.GetOp().String(), fmt.Sprintf("%s: operation {%s} is invalid (%s) but was answered %s", name, ribx.Text(op), class, verdict)})
	}
	if verdict == "none" && before != after && inv {
		out = append(out, fail{"C12/invalid-operation-held", fmt.Sprintf("%s: invalid operation {%s} changed state without an answer", name, ribx.Text(op))})
	}
	oc := verdict
	if inv {
		oc += "/invalid:" + class
	}
	return oc, out
}

// batchModify sends several operations in ONE request: every invalid one must be answered FAILED exactly once under
// its own id (or the RPC ends), a valid one among them is answered under its own id, and nothing is answered twice.
func batchModify(pi int, ops []*spb.AFTOperation, desc string) []fail {
	s, err := build(pi)
	if err != nil {
		return []fail{{"engine/build", err.Error()}}
	}
	resCh := make(chan *spb.ModifyResponse, 64)
	errCh := make(chan error, 64)
	var crash string
	func() {
		defer func() {
			if r := recover(); r != nil {
				crash = fmt.Sprintf("%v\n%s", r, debug.Stack())
			}
		}()
		s.VerifDoModify("c0", ops, resCh, errCh)
	}()
	name := fmt.Sprintf("pre-state=%s %s", preStates[pi].name, desc)
	if crash != "" {
		return []fail{{"C12/panic/" + panicSite(crash), fmt.Sprintf("%s: the server panicked on a request of %d operations: %s", name, len(ops), firstLine(crash))}}
	}
	close(resCh)
	close(errCh)
	// (responses are read after the handler returned, as a consumer that keeps what it received may do)
	terminal := map[uint64][]spb.AFTResult_Status{}
	for r := range resCh {
		for _, ar := range r.GetResult() {
			if st := ar.GetStatus(); st == spb.AFTResult_FAILED || st == spb.AFTResult_RIB_PROGRAMMED {
				terminal[ar.GetId()] = append(terminal[ar.GetId()], st)
			}
		}
	}
	ended := false
	for range errCh {
		ended = true
	}
	var out []fail
	for _, op := range ops {
		got := terminal[op.GetId()]
		inv, class := definitelyInvalid(op)
		switch {
		case len(got) > 1:
			out = append(out, fail{"C12/operation-of-a-batch-answered-twice", fmt.Sprintf("%s: operation %d {%s} received %v", name, op.GetId(), ribx.Text(op), got)})
		case inv && len(got) == 0 && !ended:
			out = append(out, fail{"C12/invalid-operation-of-a-batch-not-answered/" + class, fmt.Sprintf("%s: invalid operation %d {%s} (%s) received no FAILED result and the RPC was not ended (answers per id: %v)", name, op.GetId(), ribx.Text(op), class, terminal)})
		case inv && len(got) == 1 && got[0] != spb.AFTResult_FAILED:
			out = append(out, fail{"C12/invalid-operation-not-rejected/" + class + "/" + op.GetOp().String(), fmt.Sprintf("%s: invalid operation %d {%s} (%s) of a batch was answered %v", name, op.GetId(), ribx.Text(op), class, got)})
		}
	}
	for id := range terminal {
		known := false
		for _, op := range ops {
			known = known || op.GetId() == id
		}
		if !known {
			out = append(out, fail{"C12/answer-for-an-id-that-was-not-sent", fmt.Sprintf("%s: a result for id %d, the request carried other ids", name, id)})
		}
	}
	return out
}

// oneModifyRT repeats a (mutated) operation inside one controlled execution together with the liveness probe: the
// verdict and state oracles are oneModify's; this pass decides "does not hang or wedge other sessions".
func oneModifyRT(pi int, op *spb.AFTOperation, desc string) []fail {
	var out []fail
	name := fmt.Sprintf("pre-state=%s %s", preStates[pi].name, desc)
	x := rt.Run(rt.Options{}, func() {
		s, err := build(pi)
		if err != nil {
			out = append(out, fail{"engine/build", err.Error()})
			return
		}
		resCh := make(chan *spb.ModifyResponse, 64)
		errCh := make(chan error, 64)
		s.VerifDoModify("c0", []*spb.AFTOperation{proto.Clone(op).(*spb.AFTOperation)}, resCh, errCh)
		rt.Quiesce()
		out = append(out, probe(s, "after "+name)...)
	})
	switch {
	case x.Crash != "":
		out = append(out, fail{"C12/panic/" + panicSite(x.Crash), fmt.Sprintf("%s: the server panicked on operation {%s}: %s", name, ribx.Text(op), firstLine(x.Crash))})
	case x.Deadlock:
		out = append(out, fail{"C12/operation-hangs-or-wedges-the-server", fmt.Sprintf("%s: operation {%s}: the request or the session that follows it never terminates (blocked: %v)", name, ribx.Text(op), x.Blocked)})
	}
	return out
}

func firstLine(s string) string {
	if i := strings.IndexByte(s, '\n'); i >= 0 {
		return s[:i]
	}
	return s
}

// panicSite extracts the first gribigo / ygot frame of a stack for the signature.
func panicSite(stack string) string {
	for _, l := range strings.Split(stack, "\n") {
		l = strings.TrimSpace(l)
		if (strings.HasPrefix(l, "github.com/openconfig/gribigo/") || strings.HasPrefix(l, "github.com/openconfig/ygot/")) && strings.Contains(l, "(") {
			f := l[:strings.LastIndex(l, "(")]
			f = strings.TrimPrefix(f, "github.com/openconfig/")
			return f
		}
	}
	return "unknown"
}

// Run decides C12.
func Run(rep *report.Report, tier string) {
	orders := rt.MapOrders(tier == "thorough")
	type job struct {
		pi   int
		op   *spb.AFTOperation
		desc string
	}
	var jobs []job
	nSingles, nPairs := 0, 0
	for _, seed := range seeds() {
		muts := mutationsOf(seed)
		k, _, _ := ribx.Describe(seed)
		sname := fmt.Sprintf("%s %s", seed.GetOp(), k)
		for pi := range preStates {
			jobs = append(jobs, job{pi, proto.Clone(seed).(*spb.AFTOperation), sname + " unmutated"})
		}
		for i, m1 := range muts {
			c := proto.Clone(seed).(*spb.AFTOperation)
			if !m1.apply(c) {
				continue
			}
			nSingles++
			for pi := range preStates {
				jobs = append(jobs, job{pi, c, sname + " / " + m1.desc})
			}
			if tier != "thorough" {
				continue
			}
			for _, m2 := range muts[i+1:] {
				c2 := proto.Clone(c).(*spb.AFTOperation)
				if !m2.apply(c2) {
					continue
				}
				nPairs++
				// pairs are applied in the richest pre-state only
				jobs = append(jobs, job{1, c2, sname + " / " + m1.desc + " + " + m2.desc})
			}
		}
	}
	// requests of several operations: every invalid single mutant together with the next invalid single mutant of the
	// same seed (ids 9001, 9002) and the unmutated seed (id 9003), in the richest pre-state
	nBatches := 0
	for _, seed := range seeds() {
		var invs []job
		for _, j := range jobs {
			if j.pi != 1 || strings.Contains(j.desc, " + ") || !strings.HasPrefix(j.desc, fmt.Sprintf("%s %s /", seed.GetOp(), func() ribx.Kind { k, _, _ := ribx.Describe(seed); return k }())) {
				continue
			}
			if inv, _ := definitelyInvalid(j.op); inv {
				invs = append(invs, j)
			}
		}
		for i := range invs {
			a, b, c := proto.Clone(invs[i].op).(*spb.AFTOperation), proto.Clone(invs[(i+1)%len(invs)].op).(*spb.AFTOperation), proto.Clone(seed).(*spb.AFTOperation)
			a.Id, b.Id, c.Id = 9001, 9002, 9003
			nBatches++
			for _, f := range batchModify(1, []*spb.AFTOperation{a, b, c}, "batch ["+invs[i].desc+"] ["+invs[(i+1)%len(invs)].desc+"] [unmutated]") {
				rep.Violate(f.sig, f.what, map[string]any{"pre_state": preStates[1].name, "batch": []string{ribx.Text(a), ribx.Text(b), ribx.Text(c)}})
			}
		}
	}
	rep.Set("batches_of_two_invalid_and_one_valid_operation", nBatches)
	outcomes := map[string]int{}
	var mu sync.Mutex
	// every job once per iteration order of the maps of the instrumented packages (ascending, descending): the
	// verdict on a message must not depend on which member of a keyed list the code happens to look at first
	for _, order := range orders {
		rt.MapOrder = order
		var wg sync.WaitGroup
		ch := make(chan job)
		for w := 0; w < 16; w++ {
			wg.Add(1)
			go func() {
				defer wg.Done()
				for j := range ch {
					oc, fs := oneModify(j.pi, j.op, j.desc)
					mu.Lock()
					outcomes[strings.SplitN(oc, "/", 2)[0]]++
					mu.Unlock()
					for _, f := range fs {
						rep.Violate(f.sig, f.what, map[string]any{"pre_state": preStates[j.pi].name, "mutation": j.desc, "operation": ribx.Text(j.op), "map_order": rt.MapOrderName(order)})
					}
				}
			}()
		}
		for _, j := range jobs {
			ch <- j
		}
		close(ch)
		wg.Wait()
	}
	rt.MapOrder = 0
	// liveness pass: every single-mutation case again, with the probe, inside one controlled execution
	t0 := time.Now()
	nLive := 0
	for _, j := range jobs {
		if strings.Contains(j.desc, " + ") {
			continue // pairs: verdict and state oracles only
		}
		nLive++
		for _, f := range oneModifyRT(j.pi, j.op, j.desc) {
			rep.Violate(f.sig, f.what, map[string]any{"pre_state": preStates[j.pi].name, "mutation": j.desc, "operation": ribx.Text(j.op), "pass": "liveness"})
		}
	}
	rep.Set("liveness_pass", map[string]any{"cases": nLive, "seconds": time.Since(t0).Seconds()})
	// Get and Flush requests: executed under the controlled runtime so that a panic in a server goroutine is a
	// verdict instead of the death of the worker.
	nReq := 0
	getSeed := &spb.GetRequest{NetworkInstance: &spb.GetRequest_Name{Name: D}, Aft: spb.AFTType_ALL}
	flushSeed := &spb.FlushRequest{NetworkInstance: &spb.FlushRequest_Name{Name: D}, Election: &spb.FlushRequest_Id{Id: elec}}
	for pi := range preStates {
		var gets []*spb.GetRequest
		var gdesc []string
		gets, gdesc = append(gets, nil, proto.Clone(getSeed).(*spb.GetRequest)), append(gdesc, "nil request", "unmutated")
		for _, mt := range mutationsOf(getSeed) {
			c := proto.Clone(getSeed).(*spb.GetRequest)
			if mt.apply(c) {
				gets, gdesc = append(gets, c), append(gdesc, mt.desc)
			}
		}
		for i, g := range gets {
			nReq++
			oc, fs := oneGet(pi, g, gdesc[i])
			outcomes["get-"+oc]++
			for _, f := range fs {
				rep.Violate(f.sig, f.what, map[string]any{"pre_state": preStates[pi].name, "mutation": gdesc[i]})
			}
		}
		var fl []*spb.FlushRequest
		var fdesc []string
		fl, fdesc = append(fl, nil, proto.Clone(flushSeed).(*spb.FlushRequest)), append(fdesc, "nil request", "unmutated")
		for _, mt := range mutationsOf(flushSeed) {
			c := proto.Clone(flushSeed).(*spb.FlushRequest)
			if mt.apply(c) {
				fl, fdesc = append(fl, c), append(fdesc, mt.desc)
			}
		}
		for i, f := range fl {
			nReq++
			oc, fs := oneFlush(pi, f, fdesc[i])
			outcomes["flush-"+oc]++
			for _, ff := range fs {
				rep.Violate(ff.sig, ff.what, map[string]any{"pre_state": preStates[pi].name, "mutation": fdesc[i]})
			}
		}
	}
	total := len(orders)*len(jobs) + nReq + nLive
	rep.Set("evaluations", total)
	rep.Set("distinct_nontrivial", total)
	rep.Set("states", total)
	rep.Set("transitions", total)
	rep.Set("traces_validated_against_impl", total)
	rep.Set("single_mutations", nSingles)
	rep.Set("mutation_pairs", nPairs)
	rep.Set("get_flush_requests", nReq)
	rep.Set("rule", "mutation closure by protoreflect walk: every populated field and every unpopulated field of a populated message x operator set {clear/empty sub-message, other oneof arm, undefined/zero/last enum, boundary integers, bad strings, empty/long bytes, empty list, duplicated element}; each mutant x 3 pre-states (pairs: richest pre-state) x map iteration orders; every single-mutation case, Get and Flush again inside one controlled execution followed by a liveness probe (new session negotiates, wins the election, programs, reads back, flushes) (quick: ascending, descending; thorough: also their rotations by 1 and 2 = all orders of a 3-element map); all cases distinct by construction")
	rep.Set("exhaustive", true)
	rep.Set("distinct_outcomes", outcomes)
	keys := make([]string, 0)
	for _, j := range jobs[:min(len(jobs), 400)] {
		keys = append(keys, j.desc)
	}
	sort.Strings(keys)
	for i := 0; i < len(keys) && i < 300; i += 60 {
		rep.Sample(keys[i])
	}
}

// probe checks, inside the same controlled execution as the malformed request, that the server still serves other
// sessions: a new session negotiates, wins the election with a higher id, programs an entry, reads it back and
// flushes. A lock, goroutine or channel left behind by the request shows as the scheduler's deadlock verdict.
func probe(s *server.Server, name string) []fail {
	var out []fail
	bad := func(sig, f string, a ...any) { out = append(out, fail{sig, name + ": " + fmt.Sprintf(f, a...)}) }
	pid := &spb.Uint128{High: 7, Low: 7}
	if err := s.VerifNewClient("probe"); err != nil {
		bad("C12/server-unusable-after-request/new-session", "%v", err)
		return out
	}
	p := &spb.SessionParameters{Redundancy: spb.SessionParameters_SINGLE_PRIMARY, Persistence: spb.SessionParameters_PRESERVE}
	if _, err := s.VerifCheckParams("probe", p, false); err != nil {
		bad("C12/server-unusable-after-request/negotiation", "%v", err)
		return out
	}
	if err := s.VerifUpdateParams("probe", p); err != nil {
		bad("C12/server-unusable-after-request/negotiation", "%v", err)
		return out
	}
	if _, err := s.VerifRunElection("probe", pid); err != nil {
		bad("C12/server-unusable-after-request/election", "%v", err)
		return out
	}
	op := ribx.Op(1, V, spb.AFTOperation_ADD, ribx.NHEntry(77, "192.0.2.77"))
	op.ElectionId = pid
	resCh := make(chan *spb.ModifyResponse, 16)
	errCh := make(chan error, 16)
	s.VerifDoModify("probe", []*spb.AFTOperation{op}, resCh, errCh)
	rt.Close(resCh) // (channels are the controlled runtime's inside a controlled execution)
	ok := false
	for {
		r, more := rt.Recv2(resCh)
		if !more {
			break
		}
		for _, ar := range r.GetResult() {
			if ar.GetId() == 1 && ar.GetStatus() == spb.AFTResult_RIB_PROGRAMMED {
				ok = true
			}
		}
	}
	if !ok {
		bad("C12/server-unusable-after-request/modify", "a valid operation of the new primary was not programmed")
	}
	st, err := wire.New(s).Get(context.Background(), &spb.GetRequest{NetworkInstance: &spb.GetRequest_Name{Name: V}, Aft: spb.AFTType_NEXTHOP})
	found := false
	for err == nil {
		var r *spb.GetResponse
		if r, err = st.Recv(); err == nil {
			for _, e := range r.GetEntry() {
				if e.GetNextHop().GetIndex() == 77 {
					found = true
				}
			}
		}
	}
	if err != io.EOF || (ok && !found) {
		bad("C12/server-unusable-after-request/get", "Get of the probe entry: found=%v err=%v", found, err)
	}
	if _, err := s.Flush(context.Background(), &spb.FlushRequest{NetworkInstance: &spb.FlushRequest_All{All: &spb.Empty{}}, Election: &spb.FlushRequest_Id{Id: pid}}); err != nil {
		bad("C12/server-unusable-after-request/flush", "%v", err)
	}
	s.VerifDeleteClient("probe")
	return out
}

func oneGet(pi int, req *spb.GetRequest, desc string) (string, []fail) {
	var out []fail
	var before, after string
	var n int
	var gerr error
	x := rt.Run(rt.Options{}, func() {
		s, err := build(pi)
		if err != nil {
			out = append(out, fail{"engine/build", err.Error()})
			return
		}
		before = canon(s)
		st, err := wire.New(s).Get(context.Background(), req)
		if err != nil {
			gerr = err
			return
		}
		for {
			r, err := st.Recv()
			if err == io.EOF {
				break
			}
			if err != nil {
				gerr = err
				break
			}
			n += len(r.GetEntry())
		}
		rt.Quiesce()
		after = canon(s)
		out = append(out, probe(s, fmt.Sprintf("pre-state=%s after Get %s", preStates[pi].name, desc))...)
	})
	name := fmt.Sprintf("pre-state=%s Get %s", preStates[pi].name, desc)
	switch {
	case x.Crash != "":
		return "panic", append(out, fail{"C12/panic-in-get/" + panicSite(x.Crash), name + ": " + firstLine(x.Crash)})
	case x.Deadlock:
		return "hang", append(out, fail{"C12/get-hangs-or-wedges-the-server", fmt.Sprintf("%s: the Get RPC or the session that follows it never terminates (blocked: %v)", name, x.Blocked)})
	case before != after:
		out = append(out, fail{"C12/get-changed-state", name + ": a Get changed server state"})
	}
	if gerr != nil {
		return "error-" + status.Code(gerr).String(), out
	}
	return "ok", out
}

func oneFlush(pi int, req *spb.FlushRequest, desc string) (string, []fail) {
	var out []fail
	var before, after string
	var ferr error
	name := fmt.Sprintf("pre-state=%s Flush %s", preStates[pi].name, desc)
	x := rt.Run(rt.Options{}, func() {
		s, err := build(pi)
		if err != nil {
			out = append(out, fail{"engine/build", err.Error()})
			return
		}
		before = canon(s)
		mb, _ := ribx.Snapshot(s.VerifRIB())
		_, ferr = s.Flush(context.Background(), req)
		rt.Quiesce()
		after = canon(s)
		// An accepted Flush must name a scope: all instances or one existing instance (anything else - no scope,
		// an empty or unknown name - is malformed), and must have emptied exactly that scope.
		if ferr == nil && mb != nil {
			var scope []string
			switch v := req.GetNetworkInstance().(type) {
			case *spb.FlushRequest_All:
				for n := range mb.NIs {
					scope = append(scope, n)
				}
			case *spb.FlushRequest_Name:
				if mb.NIs[v.Name] {
					scope = []string{v.Name}
				}
			}
			if scope == nil {
				out = append(out, fail{"C12/malformed-flush-accepted", fmt.Sprintf("%s: a Flush that names no existing network instance was answered OK", name)})
			} else if ma, err := ribx.Snapshot(s.VerifRIB()); err == nil {
				want := mb.Clone()
				want.Flush(scope...)
				if ma.Canon() != want.Canon() {
					out = append(out, fail{"C12/accepted-flush-removed-wrong-scope", fmt.Sprintf("%s: answered OK for scope %v; contents afterwards %q, expected %q", name, scope, ma.Canon(), want.Canon())})
				}
			}
		}
		out = append(out, probe(s, "after "+name)...)
	})
	switch {
	case x.Crash != "":
		return "panic", append(out, fail{"C12/panic-in-flush/" + panicSite(x.Crash), name + ": " + firstLine(x.Crash)})
	case x.Deadlock:
		return "hang", append(out, fail{"C12/flush-hangs-or-wedges-the-server", fmt.Sprintf("%s: the Flush RPC or the session that follows it never terminates (blocked: %v)", name, x.Blocked)})
	}
	if ferr != nil {
		if after != before {
			out = append(out, fail{"C12/rejected-flush-changed-state", name + fmt.Sprintf(": rejected with %v but state changed", status.Code(ferr))})
		}
		return "error-" + status.Code(ferr).String(), out
	}
	return "ok", out
}
