package rtlitmus

import (
	"fmt"
	"testing"

	"verif/mc"
	"verif/rt"
	"verif/rt/vsync"
)

func outcomes(t *testing.T, bound int, body func(), out func() string) map[string]int {
	t.Helper()
	res := mc.DFS(mc.SchedConfig{NoStateCache: true, Body: body, Bound: bound, Outcome: func(x *rt.Exec) string {
		switch {
		case x.Deadlock:
			return "deadlock"
		case x.Crash != "":
			return "crash"
		case x.Livelock:
			return "livelock"
		}
		return out()
	}})
	if res.EngineError != "" {
		t.Fatalf("engine error: %s", res.EngineError)
	}
	t.Logf("execs=%d per-bound=%v outcomes=%v", res.Execs, res.ExecsPerBound, res.Outcomes)
	return res.Outcomes
}

func TestLostUpdate(t *testing.T) {
	var x int
	var wg vsync.WaitGroup
	body := func() {
		x = 0
		wg = vsync.WaitGroup{}
		wg.Add(2)
		for i := 0; i < 2; i++ {
			rt.Go("inc", func() {
				defer wg.Done()
				v := x
				rt.Yield()
				x = v + 1
			})
		}
		wg.Wait()
	}
	o := outcomes(t, 0, body, func() string { return fmt.Sprint(x) })
	if len(o) != 1 || o["2"] == 0 {
		t.Errorf("bound 0: want only outcome 2, got %v", o)
	}
	o = outcomes(t, 1, body, func() string { return fmt.Sprint(x) })
	if o["1"] == 0 || o["2"] == 0 {
		t.Errorf("bound 1: want outcomes 1 and 2, got %v", o)
	}
}

func TestMutexProtects(t *testing.T) {
	var x int
	var mu vsync.Mutex
	var wg vsync.WaitGroup
	body := func() {
		x = 0
		mu, wg = vsync.Mutex{}, vsync.WaitGroup{}
		wg.Add(2)
		for i := 0; i < 2; i++ {
			rt.Go("inc", func() {
				defer wg.Done()
				mu.Lock()
				v := x
				rt.Yield()
				x = v + 1
				mu.Unlock()
			})
		}
		wg.Wait()
	}
	o := outcomes(t, 3, body, func() string { return fmt.Sprint(x) })
	if len(o) != 1 || o["2"] == 0 {
		t.Errorf("want only outcome 2, got %v", o)
	}
}

func TestABBADeadlock(t *testing.T) {
	var a, b vsync.Mutex
	var wg vsync.WaitGroup
	body := func() {
		a, b, wg = vsync.Mutex{}, vsync.Mutex{}, vsync.WaitGroup{}
		wg.Add(2)
		rt.Go("ab", func() { defer wg.Done(); a.Lock(); b.Lock(); b.Unlock(); a.Unlock() })
		rt.Go("ba", func() { defer wg.Done(); b.Lock(); a.Lock(); a.Unlock(); b.Unlock() })
		wg.Wait()
	}
	o := outcomes(t, 0, body, func() string { return "ok" })
	if o["deadlock"] != 0 {
		t.Errorf("bound 0 must not deadlock: %v", o)
	}
	o = outcomes(t, 1, body, func() string { return "ok" })
	if o["deadlock"] == 0 || o["ok"] == 0 {
		t.Errorf("bound 1: want both ok and deadlock, got %v", o)
	}
}

func TestRWMutexRecursiveReadDeadlock(t *testing.T) {
	var m vsync.RWMutex
	var wg vsync.WaitGroup
	body := func() {
		m, wg = vsync.RWMutex{}, vsync.WaitGroup{}
		wg.Add(2)
		rt.Go("reader", func() { defer wg.Done(); m.RLock(); m.RLock(); m.RUnlock(); m.RUnlock() })
		rt.Go("writer", func() { defer wg.Done(); m.Lock(); m.Unlock() })
		wg.Wait()
	}
	o := outcomes(t, 2, body, func() string { return "ok" })
	if o["deadlock"] == 0 || o["ok"] == 0 {
		t.Errorf("want both ok and deadlock (writer announced between the two RLocks), got %v", o)
	}
}

func TestChannels(t *testing.T) {
	var got string
	body := func() {
		got = ""
		unbuf := make(chan int)
		buf := make(chan int, 1)
		done := make(chan struct{})
		rt.Go("p1", func() { rt.Send(unbuf, 1) })
		rt.Go("p2", func() { rt.Send(unbuf, 2) })
		rt.Go("c", func() {
			a := rt.Recv(unbuf)
			b := rt.Recv(unbuf)
			rt.Send(buf, a*10+b)
			rt.Close(done)
		})
		rt.Recv(done)
		v, ok := rt.Recv2(buf)
		_, ok2 := rt.Recv2(done)
		got = fmt.Sprint(v, ok, ok2)
	}
	o := outcomes(t, 2, body, func() string { return got })
	if o["12 true false"] == 0 || o["21 true false"] == 0 || len(o) != 2 {
		t.Errorf("want outcomes 12 and 21, got %v", o)
	}
}

func TestSelectNonBlockingSendNeedsParkedReceiver(t *testing.T) {
	var got string
	body := func() {
		got = ""
		stop := make(chan struct{})
		res := make(chan string)
		rt.Go("poller", func() {
			// polls the stop channel like rib.GetRIB does
			s := rt.NewSelect(true)
			c := rt.SelRecv(s, stop)
			_ = c
			if s.Wait() == 0 {
				rt.Send(res, "stopped")
			} else {
				rt.Send(res, "not-stopped")
			}
		})
		s := rt.NewSelect(true)
		rt.SelSend(s, stop, struct{}{})
		sent := s.Wait() == 0
		got = fmt.Sprintf("%v %s", sent, rt.Recv(res))
	}
	o := outcomes(t, 3, body, func() string { return got })
	if len(o) != 1 || o["false not-stopped"] == 0 {
		t.Errorf("a non-blocking send to a poller can never be delivered; got %v", o)
	}
}

func TestSleepPollingAndLivelock(t *testing.T) {
	var flag bool
	var mu vsync.Mutex
	body := func() {
		flag = false
		mu = vsync.Mutex{}
		rt.Go("setter", func() { mu.Lock(); flag = true; mu.Unlock() })
		for {
			mu.Lock()
			f := flag
			mu.Unlock()
			if f {
				return
			}
			rt.Sleep(100)
		}
	}
	o := outcomes(t, 2, body, func() string { return "done" })
	if len(o) != 1 || o["done"] == 0 {
		t.Errorf("poller must terminate: %v", o)
	}
	body2 := func() {
		for {
			rt.Sleep(100)
		}
	}
	o = outcomes(t, 0, body2, func() string { return "done" })
	if o["livelock"] == 0 {
		t.Errorf("want livelock, got %v", o)
	}
}

func TestLeakedThreadsAreKilled(t *testing.T) {
	for i := 0; i < 200; i++ {
		x := rt.Run(rt.Options{}, func() {
			ch := make(chan int)
			var mu vsync.Mutex
			rt.Go("stuck", func() {
				mu.Lock()
				defer mu.Unlock()
				rt.Recv(ch)
			})
			rt.Quiesce()
		})
		if len(x.Blocked) != 1 {
			t.Fatalf("want one blocked thread, got %v", x.Blocked)
		}
	}
}

func TestPanicIsCrash(t *testing.T) {
	x := rt.Run(rt.Options{}, func() {
		rt.Go("boom", func() { var m map[string]int; m["x"] = 1 })
		rt.Quiesce()
	})
	if x.Crash == "" {
		t.Fatalf("want crash")
	}
}

func TestReplayDeterminism(t *testing.T) {
	body := func() {
		ch := make(chan int, 2)
		var wg vsync.WaitGroup
		wg.Add(3)
		for i := 0; i < 3; i++ {
			rt.Go("w", func() { defer wg.Done(); rt.Send(ch, i); rt.Recv(ch) })
		}
		wg.Wait()
	}
	x0 := rt.Run(rt.Options{Prefix: []int{1, 0, 1, 1}}, body)
	var pre []int
	for _, c := range x0.Choices {
		pre = append(pre, c.Chosen)
	}
	if len(pre) > 6 {
		pre = append(pre[:6], 1)
	}
	x := rt.Run(rt.Options{Prefix: pre, Trace: true}, body)
	y := rt.Run(rt.Options{Prefix: pre, Trace: true}, body)
	if fmt.Sprint(x.Trace) != fmt.Sprint(y.Trace) || x.Aborted != "" {
		t.Fatalf("replay differs or aborted: %v\n%v\n%v", x.Aborted, x.Trace, y.Trace)
	}
}

// A buffered channel is FIFO even when the buffer is full and a receiver is about to receive: the value of a
// blocked sender must not overtake the buffered ones (regression test for an engine defect found through C19).
func TestBufferedChannelFIFOWithPendingReceiver(t *testing.T) {
	var got string
	body := func() {
		got = ""
		ch := make(chan int, 2)
		done := make(chan struct{})
		rt.Go("consumer", func() {
			for i := 0; i < 4; i++ {
				got += fmt.Sprint(rt.Recv(ch))
			}
			rt.Close(done)
		})
		for i := 1; i <= 4; i++ {
			s := rt.NewSelect(false)
			rt.SelSend(s, ch, i)
			s.Wait()
		}
		rt.Recv(done)
	}
	o := outcomes(t, 3, body, func() string { return got })
	if len(o) != 1 || o["1234"] == 0 {
		t.Errorf("buffered channel must deliver in FIFO order under every schedule, got %v", o)
	}
}

// TestRangeOverChannel: the rewritten form of `for v := range ch` receives through the scheduler until close.
func TestRangeOverChannel(t *testing.T) {
	var got []int
	body := func() {
		got = nil
		ch := make(chan int, 1)
		done := make(chan struct{})
		rt.Go("consumer", func() {
			for v := range rt.RangeChan(ch) {
				got = append(got, v)
			}
			rt.Close(done)
		})
		rt.Send(ch, 1)
		rt.Send(ch, 2)
		rt.Close(ch)
		rt.Recv(done)
	}
	o := outcomes(t, 2, body, func() string { return fmt.Sprint(got) })
	if len(o) != 1 || o["[1 2]"] == 0 {
		t.Errorf("want only [1 2], got %v", o)
	}
}

// TestCondLenAfter: the modelled sync.Cond, len(ch) and time.After.
func TestCondLenAfter(t *testing.T) {
	var seen string
	body := func() {
		var mu vsync.Mutex
		c := vsync.NewCond(&mu)
		ready := false
		ch := make(chan int, 2)
		rt.Go("producer", func() {
			rt.Send(ch, 1)
			mu.Lock()
			ready = true
			mu.Unlock()
			c.Broadcast()
		})
		mu.Lock()
		for !ready {
			c.Wait()
		}
		mu.Unlock()
		n := rt.ChanLen(ch)
		s := rt.NewSelect(false)
		a := rt.SelRecv(s, rt.After(1000))
		_ = a
		s.Wait()
		seen = fmt.Sprint(n)
	}
	o := outcomes(t, 2, body, func() string { return seen })
	if len(o) != 1 || o["1"] == 0 {
		t.Errorf("want only outcome 1 (one buffered message, the wait ends, the timer fires), got %v", o)
	}
}
