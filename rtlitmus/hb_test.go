package rtlitmus

import (
	"fmt"
	"sort"
	"strings"
	"testing"
	"time"

	"verif/mc"
	"verif/rt"
	"verif/rt/vatomic"
	"verif/rt/vsync"
)

// Differential self-test of the happens-before state cache (rt/hb.go, mc.DFS StateCache): for data-race-free
// programs over every modelled primitive, exploring every schedule with the cache must observe exactly the
// outcomes that exploring every schedule without it observes (and, per bound, the bounded search with the cache must
// observe exactly the outcomes of the bounded search without it).

type hbProg struct {
	name string
	body func(obs *[]string) func()
}

func classify(x *rt.Exec, obs []string) string {
	switch {
	case x.Deadlock:
		return "deadlock " + strings.Join(x.Blocked, ",")
	case x.Crash != "":
		return "crash"
	case x.Livelock:
		return "livelock"
	}
	var ev []string
	for _, e := range x.Events {
		ev = append(ev, fmt.Sprintf("%s=%v", e.Label, e.Val))
	}
	return strings.Join(obs, " ") + " | " + strings.Join(ev, " ")
}

func keys(m map[string]int) []string {
	var ks []string
	for k := range m {
		ks = append(ks, k)
	}
	sort.Strings(ks)
	return ks
}

func hbPrograms() []hbProg {
	return []hbProg{
		{"mutex split read-modify-write, three threads", func(obs *[]string) func() {
			return func() {
				var mu vsync.Mutex
				var wg vsync.WaitGroup
				x := 0
				wg.Add(3)
				for i := 0; i < 3; i++ {
					rt.Go("inc", func() {
						defer wg.Done()
						mu.Lock()
						v := x
						mu.Unlock()
						mu.Lock()
						x = v + 1
						mu.Unlock()
					})
				}
				wg.Wait()
				*obs = []string{fmt.Sprint(x)}
			}
		}},
		{"rwmutex readers and a writer", func(obs *[]string) func() {
			return func() {
				var mu vsync.RWMutex
				var wg vsync.WaitGroup
				x := 0
				got := make([]int, 2)
				wg.Add(3)
				for i := 0; i < 2; i++ {
					i := i
					rt.Go("reader", func() {
						defer wg.Done()
						mu.RLock()
						a := x
						mu.RUnlock()
						mu.RLock()
						got[i] = a*10 + x
						mu.RUnlock()
					})
				}
				rt.Go("writer", func() {
					defer wg.Done()
					mu.Lock()
					x = 1
					mu.Unlock()
					mu.Lock()
					x = 2
					mu.Unlock()
				})
				wg.Wait()
				*obs = []string{fmt.Sprint(got)}
			}
		}},
		{"two producers, buffered channel, one consumer", func(obs *[]string) func() {
			return func() {
				ch := make(chan int, 1)
				for p := 0; p < 2; p++ {
					p := p
					rt.Go("producer", func() {
						rt.Send(ch, p*10+1)
						rt.Send(ch, p*10+2)
					})
				}
				var got []int
				for i := 0; i < 4; i++ {
					got = append(got, rt.Recv(ch))
				}
				*obs = []string{fmt.Sprint(got)}
			}
		}},
		{"unbuffered channel, select with default, close", func(obs *[]string) func() {
			return func() {
				ch := make(chan int)
				done := make(chan struct{})
				res := make(chan string, 2)
				rt.Go("poller", func() {
					out := ""
					for i := 0; i < 3; i++ {
						s := rt.NewSelect(true)
						c := rt.SelRecv(s, ch)
						d := rt.SelRecv(s, done)
						switch s.Wait() {
						case 0:
							out += fmt.Sprintf("v%d", c.Val())
						case 1:
							_ = d
							out += "d"
						default:
							out += "-"
						}
					}
					rt.Send(res, out)
				})
				rt.Go("sender", func() {
					s := rt.NewSelect(true)
					rt.SelSend(s, ch, 7)
					if s.Wait() == 0 {
						rt.Send(res, "sent")
					} else {
						rt.Send(res, "nobody")
					}
					rt.Close(done)
				})
				a, b := rt.Recv(res), rt.Recv(res)
				*obs = []string{a, b}
			}
		}},
		{"atomics and a wait group", func(obs *[]string) func() {
			return func() {
				var flag vatomic.Bool
				var n vatomic.Uint64
				var wg vsync.WaitGroup
				seen := make([]string, 2)
				wg.Add(3)
				rt.Go("setter", func() {
					defer wg.Done()
					n.Inc()
					flag.Store(true)
					n.Inc()
				})
				for i := 0; i < 2; i++ {
					i := i
					rt.Go("getter", func() {
						defer wg.Done()
						f := flag.Load()
						seen[i] = fmt.Sprintf("%v/%d", f, n.Load())
					})
				}
				wg.Wait()
				*obs = seen
			}
		}},
		{"sleep polling on an atomic flag", func(obs *[]string) func() {
			return func() {
				var flag vatomic.Bool
				var mu vsync.Mutex
				log := ""
				rt.Go("worker", func() {
					mu.Lock()
					log += "w"
					mu.Unlock()
					flag.Store(true)
				})
				polls := 0
				for !flag.Load() {
					polls++
					mu.Lock()
					log += "p"
					mu.Unlock()
					rt.Sleep(1000)
				}
				mu.Lock()
				*obs = []string{log}
				mu.Unlock()
			}
		}},
		{"lock order inversion", func(obs *[]string) func() {
			return func() {
				var a, b vsync.Mutex
				var wg vsync.WaitGroup
				wg.Add(2)
				order := ""
				rt.Go("ab", func() {
					defer wg.Done()
					a.Lock()
					b.Lock()
					order += "1"
					b.Unlock()
					a.Unlock()
				})
				rt.Go("ba", func() {
					defer wg.Done()
					b.Lock()
					a.Lock()
					order += "2"
					a.Unlock()
					b.Unlock()
				})
				wg.Wait()
				*obs = []string{order}
			}
		}},
		{"writer preference: recursive read lock against a writer", func(obs *[]string) func() {
			return func() {
				var mu vsync.RWMutex
				var wg vsync.WaitGroup
				wg.Add(2)
				rt.Go("reader", func() {
					defer wg.Done()
					mu.RLock()
					mu.RLock()
					mu.RUnlock()
					mu.RUnlock()
				})
				rt.Go("writer", func() {
					defer wg.Done()
					mu.Lock()
					mu.Unlock()
				})
				wg.Wait()
				*obs = []string{"done"}
			}
		}},
		{"harness events of concurrent threads and an environment choice", func(obs *[]string) func() {
			return func() {
				var mu vsync.Mutex
				var wg vsync.WaitGroup
				wg.Add(2)
				for i := 0; i < 2; i++ {
					i := i
					rt.Go("emitter", func() {
						defer wg.Done()
						c := rt.Choose(2, 0, "answer")
						rt.Emit("start", i)
						mu.Lock()
						mu.Unlock()
						rt.Emit("end", i*10+c)
					})
				}
				wg.Wait()
				*obs = []string{fmt.Sprint(rt.NextID())}
			}
		}},
		{"semaphore channel orders critical sections", func(obs *[]string) func() {
			return func() {
				sem := make(chan struct{}, 1)
				var wg vsync.WaitGroup
				wg.Add(3)
				x := 0
				for i := 0; i < 3; i++ {
					i := i
					rt.Go("user", func() {
						defer wg.Done()
						rt.Send(sem, struct{}{})
						x = x*10 + i + 1
						rt.Recv(sem)
					})
				}
				wg.Wait()
				*obs = []string{fmt.Sprint(x)}
			}
		}},
	}
}

func TestStateCachePreservesOutcomes(t *testing.T) {
	for _, p := range hbPrograms() {
		var obs []string
		run := func(cache, unbounded bool, bound, sw int) mc.SchedResult {
			res := mc.DFS(mc.SchedConfig{Body: p.body(&obs), Outcome: func(x *rt.Exec) string { return classify(x, obs) },
				StateCache: cache, NoStateCache: !cache, Unbounded: unbounded, Bound: bound, SwitchCost: sw, Deadline: time.Now().Add(4 * time.Second)})
			if res.EngineError != "" {
				t.Fatalf("%s: engine error: %s", p.name, res.EngineError)
			}
			return res
		}
		// every schedule: reference = plain search with a bound that is larger than the number of choice points
		ref := run(false, false, 1000, 0)
		got := run(true, true, 0, 0)
		if !got.Exhaustive {
			t.Errorf("%s: the search with the cache did not finish", p.name)
		}
		if !ref.Exhaustive {
			// the reference is too large: whatever it saw must at least be among the outcomes found with the cache
			for _, k := range keys(ref.Outcomes) {
				if got.Outcomes[k] == 0 {
					t.Errorf("%s: outcome %q seen without the cache is missing with it", p.name, k)
				}
			}
		} else if fmt.Sprint(keys(ref.Outcomes)) != fmt.Sprint(keys(got.Outcomes)) {
			t.Errorf("%s: all schedules: outcomes differ\n without cache (%d executions): %v\n with cache (%d executions, %d pruned): %v", p.name, ref.Execs, keys(ref.Outcomes), got.Execs, got.Pruned, keys(got.Outcomes))
		}
		t.Logf("%-70s all schedules: %6d executions (complete: %v) without the cache, %5d (+%d pruned, %d states) with it, %d outcomes", p.name, ref.Execs, ref.Exhaustive, got.Execs, got.Pruned, got.States, len(got.Outcomes))
		for _, sw := range []int{0, 1} {
			for bound := 0; bound <= 3; bound++ {
				a, b := run(false, false, bound, sw), run(true, false, bound, sw)
				if !a.Exhaustive || !b.Exhaustive {
					continue
				}
				if fmt.Sprint(keys(a.Outcomes)) != fmt.Sprint(keys(b.Outcomes)) {
					t.Errorf("%s: bound %d switch cost %d: outcomes differ\n without cache (%d): %v\n with cache (%d, %d pruned): %v", p.name, bound, sw, a.Execs, keys(a.Outcomes), b.Execs, b.Pruned, keys(b.Outcomes))
				}
			}
		}
	}
}
