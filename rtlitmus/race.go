package rtlitmus

import (
	"fmt"

	"verif/rt"
	"verif/rt/vsync"
)

// The three litmus programs of DESIGN.md §2.2: under the scheduler-blind hand-off the detector must report the
// unsynchronised counter and must stay silent when the accesses are ordered by a modelled mutex or channel.
func raceDelta(body func()) int {
	before := rt.RaceErrors()
	rt.Run(rt.Options{}, body)
	return rt.RaceErrors() - before
}

var sink int

func TestRaceLitmusRacy() error {
	var x int
	d := raceDelta(func() {
		var wg vsync.WaitGroup
		wg.Add(2)
		rt.Go("a", func() { x++; wg.Done() })
		rt.Go("b", func() { x++; wg.Done() })
		rt.Quiesce()
	})
	sink = x
	if d == 0 {
		return fmt.Errorf("racy counter not reported")
	}
	return nil
}

func TestRaceLitmusMutex() error {
	var y int
	d := raceDelta(func() {
		var mu vsync.Mutex
		var wg vsync.WaitGroup
		wg.Add(2)
		rt.Go("a", func() { mu.Lock(); y++; mu.Unlock(); wg.Done() })
		rt.Go("b", func() { mu.Lock(); y++; mu.Unlock(); wg.Done() })
		wg.Wait()
		sink = y
	})
	if d != 0 {
		return fmt.Errorf("mutex-protected counter reported as racy (%d reports)", d)
	}
	return nil
}

func TestRaceLitmusRWMutex() error {
	var y int
	d := raceDelta(func() {
		var mu vsync.RWMutex
		var wg vsync.WaitGroup
		wg.Add(3)
		rt.Go("w", func() { mu.Lock(); y++; mu.Unlock(); wg.Done() })
		rt.Go("r1", func() { mu.RLock(); sink = y; mu.RUnlock(); wg.Done() })
		rt.Go("w2", func() { mu.Lock(); y++; mu.Unlock(); wg.Done() })
		wg.Wait()
	})
	if d != 0 {
		return fmt.Errorf("rwmutex-protected accesses reported as racy (%d reports)", d)
	}
	return nil
}

func TestRaceLitmusRLockDoesNotOrderWriters() error {
	var z int
	d := raceDelta(func() {
		var mu vsync.RWMutex
		var wg vsync.WaitGroup
		wg.Add(2)
		rt.Go("a", func() { mu.RLock(); z++; mu.RUnlock(); wg.Done() })
		rt.Go("b", func() { mu.RLock(); z++; mu.RUnlock(); wg.Done() })
		wg.Wait()
	})
	sink = z
	if d == 0 {
		return fmt.Errorf("writes under two read locks must be reported")
	}
	return nil
}

func TestRaceLitmusChannel() error {
	d := raceDelta(func() {
		type box struct{ v int }
		ch := make(chan *box)
		done := make(chan struct{})
		rt.Go("producer", func() { b := &box{}; b.v = 7; rt.Send(ch, b) })
		rt.Go("consumer", func() { b := rt.Recv(ch); sink = b.v; rt.Close(done) })
		rt.Recv(done)
	})
	if d != 0 {
		return fmt.Errorf("channel-ordered accesses reported as racy (%d reports)", d)
	}
	return nil
}

func TestRaceLitmusBufferedChannel() error {
	d := raceDelta(func() {
		type box struct{ v int }
		ch := make(chan *box, 2)
		done := make(chan struct{})
		rt.Go("producer", func() {
			for i := 0; i < 4; i++ {
				b := &box{}
				b.v = i
				rt.Send(ch, b)
			}
			rt.Close(ch)
		})
		rt.Go("consumer", func() {
			for {
				b, ok := rt.Recv2(ch)
				if !ok {
					break
				}
				sink += b.v
			}
			rt.Close(done)
		})
		rt.Recv(done)
	})
	if d != 0 {
		return fmt.Errorf("buffered-channel-ordered accesses reported as racy (%d reports)", d)
	}
	return nil
}

func TestRaceLitmusChannelDoesNotHideOtherRace() error {
	var q int
	d := raceDelta(func() {
		ch := make(chan int)
		done := make(chan struct{})
		rt.Go("producer", func() { rt.Send(ch, 1); q++ })
		rt.Go("consumer", func() { rt.Recv(ch); q++; rt.Close(done) })
		rt.Recv(done)
		rt.Quiesce()
	})
	sink = q
	if d == 0 {
		return fmt.Errorf("writes after a rendezvous on both sides must be reported")
	}
	return nil
}

// RunRaceLitmus runs the race-oracle self-tests; the binary must be built with -race and with verif/rt
// uninstrumented. It returns the list of failures.
func RunRaceLitmus() []string {
	if !rt.RaceEnabled {
		return []string{"binary not built with -race"}
	}
	var out []string
	for name, f := range map[string]func() error{
		"racy": TestRaceLitmusRacy, "mutex": TestRaceLitmusMutex, "rwmutex": TestRaceLitmusRWMutex,
		"rlock-writers": TestRaceLitmusRLockDoesNotOrderWriters, "channel": TestRaceLitmusChannel,
		"buffered-channel": TestRaceLitmusBufferedChannel, "rendezvous-does-not-hide": TestRaceLitmusChannelDoesNotHideOtherRace,
	} {
		if err := f(); err != nil {
			out = append(out, name+": "+err.Error())
		}
	}
	return out
}
