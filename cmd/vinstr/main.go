// vinstr rewrites the concurrency constructs of selected gribigo packages so that they run under verif/rt, and
// writes a `go build -overlay` file. The working tree of the repository is never modified.
//
//	vinstr -out <dir> [-tags verif] <import path>...
//
// Rewrites (general rules, applied to whatever is in the tree now):
//
//	import "sync"                      -> verif/rt/vsync        import glog -> verif/rt/vlog
//	import "go.uber.org/atomic"        -> verif/rt/vatomic      import uuid -> verif/rt/vuuid
//	go f(x)                            -> rt.Go("f", func() { f(x) })
//	ch <- v, <-ch, v, ok := <-ch       -> rt.Send / rt.Recv / rt.Recv2
//	close(ch)                          -> rt.Close(ch)
//	select { ... }                     -> rt.NewSelect / SelRecv / SelSend / switch Wait()
//	for k, v := range <map>            -> for k, v := range rt.RangeMap(<map>)
//	for v := range <chan>              -> for v := range rt.RangeChan(<chan>)
//	time.Sleep(d)                      -> rt.Sleep(d)
//
// Anything it cannot translate (labelled select, reflect.Select, sync.Cond, len(ch)) is an
// error: the caller reports ENGINE-ERROR, never a violation.
package main

import (
	"bytes"
	"encoding/json"
	"flag"
	"fmt"
	"go/ast"
	"go/importer"
	"go/parser"
	"go/printer"
	"go/token"
	"go/types"
	"io"
	"os"
	"os/exec"
	"path/filepath"
	"reflect"
	"strconv"
	"strings"
)

type listPkg struct {
	ImportPath  string
	Export      string
	Dir         string
	GoFiles     []string
	TestGoFiles []string
	Standard    bool
}

var importSwaps = map[string][2]string{
	"sync":                   {"sync", "verif/rt/vsync"},
	"go.uber.org/atomic":     {"atomic", "verif/rt/vatomic"},
	"github.com/golang/glog": {"log", "verif/rt/vlog"},
	"github.com/google/uuid": {"uuid", "verif/rt/vuuid"},
}

var withTests bool

func main() {
	out := flag.String("out", "", "output directory for rewritten files and overlay.json")
	tags := flag.String("tags", "verif", "build tags")
	flag.BoolVar(&withTests, "tests", false, "also rewrite the in-package _test.go files (to run the repository's own tests on the instrumented tree)")
	flag.Parse()
	if *out == "" || flag.NArg() == 0 {
		fmt.Fprintln(os.Stderr, "usage: vinstr -out <dir> <import path>...")
		os.Exit(2)
	}
	if err := run(*out, *tags, flag.Args()); err != nil {
		fmt.Fprintln(os.Stderr, "vinstr:", err)
		os.Exit(1)
	}
}

func run(out, tags string, targets []string) error {
	args := []string{"list", "-export", "-deps", "-tags", tags, "-json=ImportPath,Export,Dir,GoFiles,TestGoFiles,Standard"}
	if withTests {
		args = append(args, "-test")
	}
	args = append(args, targets...)
	cmd := exec.Command("go", args...)
	var stderr bytes.Buffer
	cmd.Stderr = &stderr
	b, err := cmd.Output()
	if err != nil {
		return fmt.Errorf("go list: %v\n%s", err, stderr.String())
	}
	pkgs := map[string]*listPkg{}
	dec := json.NewDecoder(bytes.NewReader(b))
	for dec.More() {
		p := &listPkg{}
		if err := dec.Decode(p); err != nil {
			return err
		}
		if _, dup := pkgs[p.ImportPath]; !dup {
			pkgs[p.ImportPath] = p
		}
	}
	fset := token.NewFileSet()
	imp := importer.ForCompiler(fset, "gc", func(path string) (io.ReadCloser, error) {
		p := pkgs[path]
		if p == nil || p.Export == "" {
			return nil, fmt.Errorf("no export data for %s", path)
		}
		return os.Open(p.Export)
	})
	overlay := map[string]string{}
	if err := os.MkdirAll(out, 0o755); err != nil {
		return err
	}
	for _, tp := range targets {
		p := pkgs[tp]
		if p == nil {
			return fmt.Errorf("package %s not listed", tp)
		}
		var files []*ast.File
		if withTests {
			p.GoFiles = append(append([]string{}, p.GoFiles...), p.TestGoFiles...)
		}
		for _, f := range p.GoFiles {
			af, err := parser.ParseFile(fset, filepath.Join(p.Dir, f), nil, parser.SkipObjectResolution)
			if err != nil {
				return err
			}
			files = append(files, af)
		}
		info := &types.Info{Types: map[ast.Expr]types.TypeAndValue{}, Uses: map[*ast.Ident]types.Object{}}
		conf := types.Config{Importer: imp, Error: func(err error) {}}
		if _, err := conf.Check(tp, fset, files, info); err != nil {
			return fmt.Errorf("type-checking %s: %v", tp, err)
		}
		for i, af := range files {
			r := &rewriter{fset: fset, info: info, file: af}
			changed, err := r.rewrite()
			if err != nil {
				return fmt.Errorf("%s: %v", filepath.Join(p.Dir, p.GoFiles[i]), err)
			}
			if !changed {
				continue
			}
			af.Comments = nil
			var buf bytes.Buffer
			if err := (&printer.Config{Mode: printer.UseSpaces | printer.TabIndent, Tabwidth: 8}).Fprint(&buf, fset, af); err != nil {
				return err
			}
			if src, err := os.ReadFile(filepath.Join(p.Dir, p.GoFiles[i])); err == nil && bytes.HasPrefix(src, []byte("//go:build ")) {
				line, _, _ := bytes.Cut(src, []byte("\n"))
				buf = *bytes.NewBuffer(append(append(append([]byte{}, line...), '\n', '\n'), buf.Bytes()...))
			}
			dst := filepath.Join(out, strings.ReplaceAll(strings.TrimPrefix(tp, "github.com/openconfig/gribigo/"), "/", "_")+"__"+p.GoFiles[i])
			if err := os.WriteFile(dst, buf.Bytes(), 0o644); err != nil {
				return err
			}
			overlay[filepath.Join(p.Dir, p.GoFiles[i])] = dst
		}
	}
	ob, _ := json.MarshalIndent(map[string]any{"Replace": overlay}, "", " ")
	return os.WriteFile(filepath.Join(out, "overlay.json"), ob, 0o644)
}

type rewriter struct {
	fset    *token.FileSet
	info    *types.Info
	file    *ast.File
	needRT  bool
	changed bool
	err     error
	skip    map[ast.Node]bool // comm-clause heads handled by the select rewrite
	n       int
	goTmp   int
}

func (r *rewriter) fail(n ast.Node, format string, a ...any) {
	if r.err == nil {
		r.err = fmt.Errorf("%s: %s", r.fset.Position(n.Pos()), fmt.Sprintf(format, a...))
	}
}

func rtSel(name string) ast.Expr {
	return &ast.SelectorExpr{X: ast.NewIdent("rt"), Sel: ast.NewIdent(name)}
}
func callRT(name string, args ...ast.Expr) *ast.CallExpr {
	return &ast.CallExpr{Fun: rtSel(name), Args: args}
}

func (r *rewriter) rewrite() (bool, error) {
	// imports
	for _, is := range r.file.Imports {
		path, _ := strconv.Unquote(is.Path.Value)
		if sw, ok := importSwaps[path]; ok {
			name := sw[0]
			if is.Name != nil {
				name = is.Name.Name
			}
			is.Name = ast.NewIdent(name)
			is.Path.Value = strconv.Quote(sw[1])
			r.changed = true
		}
	}
	r.skip = map[ast.Node]bool{}
	// pass 1: decisions that need type information, taken on the unmodified tree
	mapRange := map[*ast.RangeStmt]bool{}
	chanRange := map[*ast.RangeStmt]bool{}
	closeCall := map[*ast.CallExpr]bool{}
	sleepCall := map[*ast.CallExpr]bool{}
	lenCall := map[*ast.CallExpr]bool{}
	afterCall := map[*ast.CallExpr]bool{}
	shuffleCall := map[*ast.CallExpr]bool{}
	ast.Inspect(r.file, func(n ast.Node) bool {
		switch x := n.(type) {
		case *ast.RangeStmt:
			if t := r.info.TypeOf(x.X); t != nil {
				switch t.Underlying().(type) {
				case *types.Map:
					mapRange[x] = true
				case *types.Chan:
					chanRange[x] = true
				}
			}
		case *ast.CallExpr:
			switch f := x.Fun.(type) {
			case *ast.Ident:
				if b, ok := r.info.Uses[f].(*types.Builtin); ok {
					switch b.Name() {
					case "close":
						closeCall[x] = true
					case "len", "cap":
						if t := r.info.TypeOf(x.Args[0]); t != nil {
							if _, isCh := t.Underlying().(*types.Chan); isCh && b.Name() == "len" {
								lenCall[x] = true
							}
						}
					}
				}
			case *ast.SelectorExpr:
				if fn, ok := r.info.Uses[f.Sel].(*types.Func); ok && fn.Pkg() != nil {
					full := fn.Pkg().Path() + "." + fn.Name()
					switch full {
					case "time.Sleep":
						sleepCall[x] = true
					case "math/rand.Shuffle":
						shuffleCall[x] = true
					case "time.After":
						afterCall[x] = true
					case "reflect.Select", "time.NewTimer", "time.Tick", "time.NewTicker", "time.AfterFunc":
						r.fail(x, "%s is not supported by the instrumenter", full)
					}
				}
			}
		case *ast.SelectorExpr:
			if tn, ok := r.info.Uses[x.Sel].(*types.TypeName); ok && tn.Pkg() != nil && tn.Pkg().Path() == "sync" {
				switch tn.Name() {
				case "RWMutex", "Mutex", "WaitGroup", "Once", "Map", "Pool", "Locker", "Cond":
				default:
					r.fail(x, "sync.%s is not supported by the instrumenter", tn.Name())
				}
			}
		case *ast.LabeledStmt:
			if _, ok := x.Stmt.(*ast.SelectStmt); ok {
				r.fail(x, "labelled select is not supported by the instrumenter")
			}
		case *ast.CommClause:
			switch c := x.Comm.(type) {
			case *ast.SendStmt:
				r.skip[c] = true
			case *ast.ExprStmt:
				r.skip[c.X] = true
			case *ast.AssignStmt:
				r.skip[c.Rhs[0]] = true
			}
		}
		return true
	})
	if r.err != nil {
		return false, r.err
	}
	// pass 2: post-order mutation
	var stack []ast.Node
	ast.Inspect(r.file, func(n ast.Node) bool {
		if n != nil {
			stack = append(stack, n)
			return true
		}
		cur := stack[len(stack)-1]
		stack = stack[:len(stack)-1]
		var parent ast.Node
		if len(stack) > 0 {
			parent = stack[len(stack)-1]
		}
		var repl ast.Node
		switch x := cur.(type) {
		case *ast.GoStmt:
			repl = r.goStmt(x)
		case *ast.SendStmt:
			if !r.skip[x] {
				repl = &ast.ExprStmt{X: &ast.CallExpr{Fun: &ast.SelectorExpr{X: callRT("To", x.Chan), Sel: ast.NewIdent("Send")}, Args: []ast.Expr{x.Value}}}
			}
		case *ast.UnaryExpr:
			if x.Op == token.ARROW && !r.skip[x] {
				name := "Recv"
				if as, ok := parent.(*ast.AssignStmt); ok && len(as.Lhs) == 2 && len(as.Rhs) == 1 {
					name = "Recv2"
				}
				if vs, ok := parent.(*ast.ValueSpec); ok && len(vs.Names) == 2 && len(vs.Values) == 1 {
					name = "Recv2"
				}
				repl = callRT(name, x.X)
			}
		case *ast.CallExpr:
			switch {
			case closeCall[x]:
				x.Fun = rtSel("Close")
				r.needRT, r.changed = true, true
			case sleepCall[x]:
				x.Fun = rtSel("Sleep")
				r.needRT, r.changed = true, true
			case lenCall[x]:
				x.Fun = rtSel("ChanLen") // len(ch): the number of buffered messages in the scheduler's model
				r.needRT, r.changed = true, true
			case afterCall[x]:
				x.Fun = rtSel("After") // time.After(d): a channel fed by a thread that sleeps d of virtual time
				r.needRT, r.changed = true, true
			case shuffleCall[x]:
				x.Fun = rtSel("Shuffle")
				r.needRT, r.changed = true, true
			}
		case *ast.RangeStmt:
			if mapRange[x] {
				x.X = callRT("RangeMap", x.X)
				r.needRT, r.changed = true, true
			}
			if chanRange[x] {
				// for v := range ch  ->  for v := range rt.RangeChan(ch)  (receives through the scheduler until closed)
				x.X = callRT("RangeChan", x.X)
				r.needRT, r.changed = true, true
			}
		case *ast.SelectStmt:
			repl = r.selectStmt(x)
		}
		if repl != nil {
			r.needRT, r.changed = true, true
			if !replaceChild(parent, cur, repl) {
				r.fail(cur, "internal: cannot replace %T in %T", cur, parent)
			}
		}
		return true
	})
	if r.err != nil {
		return false, r.err
	}
	if r.needRT {
		r.addImport("rt", "verif/rt")
	}
	if r.changed {
		r.dropUnusedTime()
	}
	return r.changed, nil
}

func (r *rewriter) goStmt(g *ast.GoStmt) ast.Stmt {
	name := "func"
	switch f := g.Call.Fun.(type) {
	case *ast.FuncLit:
		if len(g.Call.Args) == 0 {
			return &ast.ExprStmt{X: callRT("Go", &ast.BasicLit{Kind: token.STRING, Value: strconv.Quote(r.enclosing(g) + ".func")}, f)}
		}
	case *ast.Ident:
		name = f.Name
	case *ast.SelectorExpr:
		name = f.Sel.Name
	}
	// The arguments of a go statement are evaluated by the spawning goroutine: non-trivial ones are evaluated into
	// temporaries first (`go f(g(), x)` => `{ _vgo0 := g(); rt.Go("f", func() { f(_vgo0, x) }) }`).
	var pre []ast.Stmt
	if g.Call.Ellipsis != token.NoPos {
		r.fail(g, "go statement with a variadic spread argument is not supported by the instrumenter")
	}
	for i, a := range g.Call.Args {
		if pure(a) {
			continue
		}
		// (a multi-valued call as the only argument makes the generated code fail to compile: the build step
		// reports that as an engine error)
		tmp := ast.NewIdent(fmt.Sprintf("_vgo%d_%d", r.goTmp, i))
		pre = append(pre, &ast.AssignStmt{Lhs: []ast.Expr{tmp}, Tok: token.DEFINE, Rhs: []ast.Expr{a}})
		g.Call.Args[i] = tmp
	}
	r.goTmp++
	body := &ast.BlockStmt{List: []ast.Stmt{&ast.ExprStmt{X: g.Call}}}
	spawn := &ast.ExprStmt{X: callRT("Go", &ast.BasicLit{Kind: token.STRING, Value: strconv.Quote(name)}, &ast.FuncLit{Type: &ast.FuncType{Params: &ast.FieldList{}}, Body: body})}
	if len(pre) == 0 {
		return spawn
	}
	return &ast.BlockStmt{List: append(pre, spawn)}
}

func (r *rewriter) enclosing(n ast.Node) string {
	name := "?"
	for _, d := range r.file.Decls {
		if fd, ok := d.(*ast.FuncDecl); ok && fd.Pos() <= n.Pos() && n.End() <= fd.End() {
			name = fd.Name.Name
		}
	}
	return name
}

func pure(e ast.Expr) bool {
	switch x := e.(type) {
	case *ast.Ident, *ast.BasicLit:
		return true
	case *ast.SelectorExpr:
		return pure(x.X)
	}
	return false
}

func (r *rewriter) selectStmt(s *ast.SelectStmt) ast.Stmt {
	r.n++
	sv := fmt.Sprintf("_vsel%d", r.n)
	hasDefault := false
	for _, c := range s.Body.List {
		if c.(*ast.CommClause).Comm == nil {
			hasDefault = true
		}
	}
	blk := &ast.BlockStmt{}
	def := "false"
	if hasDefault {
		def = "true"
	}
	blk.List = append(blk.List, &ast.AssignStmt{Lhs: []ast.Expr{ast.NewIdent(sv)}, Tok: token.DEFINE, Rhs: []ast.Expr{callRT("NewSelect", ast.NewIdent(def))}})
	sw := &ast.SwitchStmt{Tag: &ast.CallExpr{Fun: &ast.SelectorExpr{X: ast.NewIdent(sv), Sel: ast.NewIdent("Wait")}}, Body: &ast.BlockStmt{}}
	idx := 0
	for _, c := range s.Body.List {
		cc := c.(*ast.CommClause)
		if cc.Comm == nil {
			sw.Body.List = append(sw.Body.List, &ast.CaseClause{List: nil, Body: cc.Body})
			continue
		}
		cv := fmt.Sprintf("_vcase%d_%d", r.n, idx)
		var reg *ast.CallExpr
		var pre []ast.Stmt
		switch cm := cc.Comm.(type) {
		case *ast.SendStmt:
			reg = &ast.CallExpr{Fun: &ast.SelectorExpr{X: callRT("To", cm.Chan), Sel: ast.NewIdent("Sel")}, Args: []ast.Expr{ast.NewIdent(sv), cm.Value}}
		case *ast.ExprStmt:
			reg = callRT("SelRecv", ast.NewIdent(sv), cm.X.(*ast.UnaryExpr).X)
		case *ast.AssignStmt:
			reg = callRT("SelRecv", ast.NewIdent(sv), cm.Rhs[0].(*ast.UnaryExpr).X)
			m := "Val"
			if len(cm.Lhs) == 2 {
				m = "Val2"
			}
			pre = append(pre, &ast.AssignStmt{Lhs: cm.Lhs, Tok: cm.Tok, Rhs: []ast.Expr{&ast.CallExpr{Fun: &ast.SelectorExpr{X: ast.NewIdent(cv), Sel: ast.NewIdent(m)}}}})
			// keep "declared and not used" away when the body ignores the variables
			if cm.Tok == token.DEFINE {
				for _, l := range cm.Lhs {
					if id, ok := l.(*ast.Ident); ok && id.Name != "_" {
						pre = append(pre, &ast.AssignStmt{Lhs: []ast.Expr{ast.NewIdent("_")}, Tok: token.ASSIGN, Rhs: []ast.Expr{ast.NewIdent(id.Name)}})
					}
				}
			}
		default:
			r.fail(cc, "unsupported select case")
			return nil
		}
		blk.List = append(blk.List, &ast.AssignStmt{Lhs: []ast.Expr{ast.NewIdent(cv)}, Tok: token.DEFINE, Rhs: []ast.Expr{reg}})
		blk.List = append(blk.List, &ast.AssignStmt{Lhs: []ast.Expr{ast.NewIdent("_")}, Tok: token.ASSIGN, Rhs: []ast.Expr{ast.NewIdent(cv)}})
		sw.Body.List = append(sw.Body.List, &ast.CaseClause{List: []ast.Expr{&ast.BasicLit{Kind: token.INT, Value: strconv.Itoa(idx)}}, Body: append(pre, cc.Body...)})
		idx++
	}
	blk.List = append(blk.List, sw)
	return blk
}

func (r *rewriter) addImport(name, path string) {
	spec := &ast.ImportSpec{Name: ast.NewIdent(name), Path: &ast.BasicLit{Kind: token.STRING, Value: strconv.Quote(path)}}
	for _, d := range r.file.Decls {
		if gd, ok := d.(*ast.GenDecl); ok && gd.Tok == token.IMPORT {
			gd.Specs = append(gd.Specs, spec)
			if !gd.Lparen.IsValid() {
				gd.Lparen = gd.Pos()
				gd.Rparen = gd.End()
			}
			r.file.Imports = append(r.file.Imports, spec)
			return
		}
	}
	r.file.Decls = append([]ast.Decl{&ast.GenDecl{Tok: token.IMPORT, Specs: []ast.Spec{spec}}}, r.file.Decls...)
}

// dropUnusedTime removes the "time" import if time.Sleep was its only use.
func (r *rewriter) dropUnusedTime() {
	used := false
	ast.Inspect(r.file, func(n ast.Node) bool {
		if se, ok := n.(*ast.SelectorExpr); ok {
			if id, ok := se.X.(*ast.Ident); ok && id.Name == "time" {
				used = true
			}
		}
		return true
	})
	if used {
		return
	}
	for _, d := range r.file.Decls {
		gd, ok := d.(*ast.GenDecl)
		if !ok || gd.Tok != token.IMPORT {
			continue
		}
		var keep []ast.Spec
		for _, s := range gd.Specs {
			if is := s.(*ast.ImportSpec); is.Path.Value == `"time"` && is.Name == nil {
				continue
			}
			keep = append(keep, s)
		}
		gd.Specs = keep
	}
}

// replaceChild replaces old by new in whichever field (or slice element) of parent holds it.
func replaceChild(parent, old, new ast.Node) bool {
	if parent == nil {
		return false
	}
	v := reflect.ValueOf(parent).Elem()
	nv := reflect.ValueOf(new)
	for i := 0; i < v.NumField(); i++ {
		f := v.Field(i)
		switch f.Kind() {
		case reflect.Interface, reflect.Ptr:
			if !f.IsNil() && f.CanInterface() && f.Interface() == any(old) {
				if !nv.Type().AssignableTo(f.Type()) {
					return false
				}
				f.Set(nv)
				return true
			}
		case reflect.Slice:
			for j := 0; j < f.Len(); j++ {
				e := f.Index(j)
				if (e.Kind() == reflect.Interface || e.Kind() == reflect.Ptr) && !e.IsNil() && e.Interface() == any(old) {
					if !nv.Type().AssignableTo(e.Type()) {
						return false
					}
					e.Set(nv)
					return true
				}
			}
		}
	}
	return false
}
