// vworker runs one property's harness: vworker <Cnn> <quick|thorough>.
package main

import (
	"encoding/json"
	"flag"
	"fmt"
	"os"
	"runtime/debug"
	"strings"
	"time"

	"verif/harness/chkenum"
	"verif/harness/clienth"
	"verif/harness/compl"
	"verif/harness/conc"
	"verif/harness/fluentenum"
	"verif/harness/flushenum"
	"verif/harness/getenum"
	"verif/harness/malformed"
	"verif/harness/reconc"
	"verif/harness/ribhist"
	"verif/harness/sesshist"
	"verif/harness/streams"
	"verif/mc"
	"verif/report"
	"verif/rt/vsync"
)

type runner struct {
	level string
	run   func(rep *report.Report, tier string)
}

var runners = map[string]runner{
	"C01": {"model_checking", func(rep *report.Report, tier string) { sesshist.RunC01Server(rep, tier); ribhist.RunC01(rep, tier) }},
	"C02": {"model_checking", func(rep *report.Report, tier string) {
		sesshist.RunServerTierLite(rep, tier)
		ribhist.RunC02(rep, tier)
	}},
	"C03": {"model_checking", func(rep *report.Report, tier string) {
		sesshist.RunServerTierLite(rep, tier)
		ribhist.RunC03(rep, tier)
	}},
	"C16": {"model_checking", ribhist.RunC16},
	"C07": {"model_checking", func(rep *report.Report, tier string) {
		getenum.Run(rep, tier)
		ribhist.RunC07Hist(rep, tier)
		conc.RunC07Concurrent(rep, tier)
	}},
	"C12": {"model_checking", malformed.Run},
	"C08": {"model_checking", flushenum.Run},
	"C04": {"model_checking", func(rep *report.Report, tier string) {
		sesshist.RunC04(rep, tier)
		conc.RunC04Concurrent(rep, tier)
	}},
	"C05": {"model_checking", func(rep *report.Report, tier string) {
		sesshist.RunC05(rep, tier)
		conc.RunC05Sched(rep, tier, ribhist.Budget(tier, 100*time.Second, 20*time.Minute))
	}},
	"C11": {"model_checking", conc.RunC11},
	"C09": {"model_checking", streams.RunC09},
	"C13": {"model_checking", clienth.RunC13},
	"C15": {"model_checking", reconc.Run},
	"C17": {"model_checking", chkenum.Run},
	"C19": {"model_checking", compl.Run},
	"C18": {"model_checking", fluentenum.Run},
	"C14": {"fault_enumeration", clienth.RunC14},
	"C10": {"fault_enumeration", streams.RunC10},
	"C06": {"model_checking", func(rep *report.Report, tier string) {
		sesshist.RunC06(rep, tier)
		streams.RunC06B(rep, tier, ribhist.Budget(tier, 100*time.Second, 20*time.Minute))
		conc.RunC06Concurrent(rep, tier)
	}},
}

// children are the shard entry points: vworker -child <property> <tier> <part> <dumpfile>
var children = map[string]func(rep *report.Report, tier, part string){
	"C11": conc.ChildC11,
	"C19": compl.Child,
	"C13": clienth.ChildC13,
	"C14": clienth.ChildC14,
	"C04": conc.ChildC06Concurrent,
	"C07": conc.ChildC06Concurrent,
	"C06": func(rep *report.Report, tier, part string) {
		if strings.HasPrefix(part, "lin/") {
			conc.ChildC06Concurrent(rep, tier, part)
			return
		}
		streams.Child("C06")(rep, tier, part)
	},
	"C09": streams.Child("C09"),
	"C10": streams.Child("C10"),
}

func main() {
	// the code under test (ygot) allocates heavily and the live heap is small: with the default GC target the
	// collector runs continuously and the workers spend most of their time in stop-the-world hand-shakes
	debug.SetGCPercent(1000)
	// a lock left held by the code under test must fail the sequential harnesses, not hang them
	vsync.LeakWatch = true
	flag.Set("logtostderr", "false")
	flag.Set("stderrthreshold", "FATAL")
	child := flag.Bool("child", false, "run one shard and dump the partial report")
	flag.Parse()
	if *child {
		if flag.NArg() < 4 {
			os.Exit(2)
		}
		f, ok := children[flag.Arg(0)]
		if !ok {
			fmt.Println("unknown child", flag.Arg(0))
			os.Exit(2)
		}
		rep := report.New(flag.Arg(0), flag.Arg(1), "")
		f(rep, flag.Arg(1), flag.Arg(2))
		if err := rep.Dump(flag.Arg(3)); err != nil {
			fmt.Println(err)
			os.Exit(2)
		}
		return
	}
	if flag.NArg() < 2 {
		fmt.Println("usage: vworker <property> <quick|thorough>")
		os.Exit(2)
	}
	id, tier := flag.Arg(0), flag.Arg(1)
	if tier == "replay" {
		os.Exit(replay(id, flag.Arg(2)))
	}
	r, ok := runners[id]
	if !ok {
		fmt.Printf("ENGINE-ERROR unknown property %s\n", id)
		os.Exit(2)
	}
	rep := report.New(id, tier, r.level)
	r.run(rep, tier)
	os.Exit(rep.Finish())
}

// replay re-executes the case stored in a replay file (written next to a VIOLATION line) and prints a step-by-step
// account. Histories of the BFS harnesses are replayed step by step; for the other harnesses the check is run
// again and the recorded signature is looked for.
func replay(id, path string) int {
	b, err := os.ReadFile(path)
	if err != nil {
		fmt.Println("cannot read replay file:", err)
		return 2
	}
	var rf struct {
		Property  string
		Tier      string
		Signature string
		What      string
		Replay    struct {
			Search   string
			History  []string
			Scenario string
			Schedule []string
		}
	}
	if err := json.Unmarshal(b, &rf); err != nil {
		fmt.Println("cannot parse replay file:", err)
		return 2
	}
	fmt.Printf("replaying %s  signature=%s\n  recorded: %.300s\n", path, rf.Signature, rf.What)
	var fails []mc.Fail
	switch {
	case rf.Replay.Search != "" && strings.HasPrefix(rf.Replay.Search, "modify-streams") && id != "C06" || strings.HasPrefix(rf.Replay.Search, "faults/"):
		fails = streams.Replay(id, rf.Tier, rf.Replay.Search, rf.Replay.History)
	case rf.Replay.Search != "" && strings.HasPrefix(rf.Replay.Search, "modify-streams"):
		fails = streams.Replay(id, rf.Tier, rf.Replay.Search, rf.Replay.History)
	case rf.Replay.Search != "" && (strings.HasPrefix(rf.Replay.Search, "rib/") || strings.HasPrefix(rf.Replay.Search, "mixed/") || strings.HasPrefix(rf.Replay.Search, "arrival-orders/") || strings.HasPrefix(rf.Replay.Search, "get-after-every-step")):
		fails = ribhist.Replay(id, rf.Replay.Search, rf.Replay.History)
	case id == "C11" && rf.Replay.Scenario != "" && len(rf.Replay.Schedule) > 0:
		fails = conc.ReplaySchedule(rf.Replay.Scenario, rf.Replay.Schedule)
	default:
		fmt.Println("no step-by-step replay for this harness: running the check again and looking for the signature")
		rep := report.New(id, rf.Tier, "")
		runners[id].run(rep, rf.Tier)
		tmp, _ := os.CreateTemp("", "replay")
		rep.Dump(tmp.Name())
		var p report.Partial
		pb, _ := os.ReadFile(tmp.Name())
		os.Remove(tmp.Name())
		json.Unmarshal(pb, &p)
		for _, v := range p.Violations {
			if v.Sig == rf.Signature {
				fmt.Printf("REPRODUCED %s: %.400s\n", v.Sig, v.What)
				return 1
			}
		}
		fmt.Println("NOT REPRODUCED")
		return 0
	}
	for _, f := range fails {
		if f.Sig == rf.Signature {
			fmt.Printf("REPRODUCED %s\n", f.Sig)
			return 1
		}
	}
	fmt.Println("NOT REPRODUCED")
	return 0
}
