// vworker runs one property's harness: vworker <Cnn> <quick|thorough>.
package main

import (
	"flag"
	"fmt"
	"os"
	"time"

	"verif/harness/chkenum"
	"verif/harness/clienth"
	"verif/harness/compl"
	"verif/harness/conc"
	"verif/harness/fluentenum"
	"verif/harness/flushenum"
	"verif/harness/getenum"
	"verif/harness/malformed"
	"verif/harness/reconc"
	"verif/harness/ribhist"
	"verif/harness/sesshist"
	"verif/harness/streams"
	"verif/report"
)

type runner struct {
	level string
	run   func(rep *report.Report, tier string)
}

var runners = map[string]runner{
	"C01": {"model_checking", ribhist.RunC01},
	"C02": {"model_checking", ribhist.RunC02},
	"C03": {"model_checking", ribhist.RunC03},
	"C16": {"model_checking", ribhist.RunC16},
	"C07": {"model_checking", func(rep *report.Report, tier string) { getenum.Run(rep, tier); ribhist.RunC07Hist(rep, tier) }},
	"C12": {"model_checking", malformed.Run},
	"C08": {"model_checking", flushenum.Run},
	"C04": {"model_checking", sesshist.RunC04},
	"C05": {"model_checking", func(rep *report.Report, tier string) {
		sesshist.RunC05(rep, tier)
		conc.RunC05Sched(rep, tier, ribhist.Budget(tier, 100*time.Second, 20*time.Minute))
	}},
	"C11": {"model_checking", conc.RunC11},
	"C09": {"model_checking", streams.RunC09},
	"C13": {"model_checking", clienth.RunC13},
	"C15": {"model_checking", reconc.Run},
	"C17": {"model_checking", chkenum.Run},
	"C19": {"model_checking", compl.Run},
	"C18": {"model_checking", fluentenum.Run},
	"C14": {"fault_enumeration", clienth.RunC14},
	"C10": {"fault_enumeration", streams.RunC10},
	"C06": {"model_checking", func(rep *report.Report, tier string) {
		sesshist.RunC06(rep, tier)
		streams.RunC06B(rep, tier, ribhist.Budget(tier, 100*time.Second, 20*time.Minute))
	}},
}

// children are the shard entry points: vworker -child <property> <tier> <part> <dumpfile>
var children = map[string]func(rep *report.Report, tier, part string){
	"C11": conc.ChildC11,
	"C19": compl.Child,
	"C13": clienth.ChildC13,
	"C14": clienth.ChildC14,
	"C06": streams.Child("C06"),
	"C09": streams.Child("C09"),
	"C10": streams.Child("C10"),
}

func main() {
	flag.Set("logtostderr", "false")
	flag.Set("stderrthreshold", "FATAL")
	child := flag.Bool("child", false, "run one shard and dump the partial report")
	flag.Parse()
	if *child {
		if flag.NArg() < 4 {
			os.Exit(2)
		}
		f, ok := children[flag.Arg(0)]
		if !ok {
			fmt.Println("unknown child", flag.Arg(0))
			os.Exit(2)
		}
		rep := report.New(flag.Arg(0), flag.Arg(1), "")
		f(rep, flag.Arg(1), flag.Arg(2))
		if err := rep.Dump(flag.Arg(3)); err != nil {
			fmt.Println(err)
			os.Exit(2)
		}
		return
	}
	if flag.NArg() < 2 {
		fmt.Println("usage: vworker <property> <quick|thorough>")
		os.Exit(2)
	}
	id, tier := flag.Arg(0), flag.Arg(1)
	r, ok := runners[id]
	if !ok {
		fmt.Printf("ENGINE-ERROR unknown property %s\n", id)
		os.Exit(2)
	}
	rep := report.New(id, tier, r.level)
	r.run(rep, tier)
	os.Exit(rep.Finish())
}
