// rtlitmus checks that the race oracle of the controlled runtime is faithful (build with -race and
// -gcflags=verif/rt/...=-race=false; run with GORACE="halt_on_error=0 log_path=/dev/null").
package main

import (
	"fmt"
	"os"

	"verif/rtlitmus"
)

func main() {
	if f := rtlitmus.RunRaceLitmus(); len(f) > 0 {
		fmt.Println("ENGINE-ERROR race litmus failed:", f)
		os.Exit(2)
	}
	fmt.Println("race-litmus-ok")
}
