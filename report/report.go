// Package report collects what a check covered and what it found, matches violations against the committed
// known-findings file, writes evidence/<id>.json and prints the VIOLATION / KNOWN-FINDING lines.
package report

import (
	"bufio"
	"crypto/sha256"
	"encoding/hex"
	"encoding/json"
	"fmt"
	"os"
	"os/exec"
	"path/filepath"
	"runtime/debug"
	"sort"
	"strconv"
	"strings"
	"sync"
	"time"
)

// Root is the directory of the verification tree.
var Root = func() string {
	if r := os.Getenv("VERIF_ROOT"); r != "" {
		return r
	}
	return "/verif"
}()

// Violation is one oracle failure, reduced to a signature.
type Violation struct {
	Sig    string `json:"signature"`
	What   string `json:"what"`
	Replay any    `json:"replay"`
	Count  int    `json:"occurrences"`
}

// Report is the result of one check run.
type Report struct {
	Property string
	Tier     string
	Seed     int
	Level    string
	Start    time.Time

	mu          sync.Mutex
	viol        map[string]*Violation
	order       []string
	Coverage    map[string]any
	Assumptions []string
	samples     []any
	engineErr   string
}

// New creates a report for property id.
func New(id, tier, level string) *Report {
	seed, _ := strconv.Atoi(os.Getenv("VERIF_SEED"))
	if level != "" {
		// replay files of an earlier run of this check are stale
		if old, _ := filepath.Glob(filepath.Join(Root, "replays", id+"-*.json")); len(old) > 0 {
			for _, f := range old {
				os.Remove(f)
			}
		}
	}
	return &Report{Property: id, Tier: tier, Seed: seed, Level: level, Start: time.Now(), viol: map[string]*Violation{}, Coverage: map[string]any{}}
}

// Violate records an oracle failure. Only the first occurrence of a signature keeps its replay (explorers find
// minimal ones first); later ones are counted.
func (r *Report) Violate(sig, what string, replay any) {
	r.mu.Lock()
	defer r.mu.Unlock()
	if v, ok := r.viol[sig]; ok {
		v.Count++
		return
	}
	r.viol[sig] = &Violation{Sig: sig, What: what, Replay: replay, Count: 1}
	r.order = append(r.order, sig)
}

// NumViolations returns the number of distinct signatures recorded.
func (r *Report) NumViolations() int {
	r.mu.Lock()
	defer r.mu.Unlock()
	return len(r.viol)
}

// Sample adds an explored case to the evidence (capped).
func (r *Report) Sample(s any) {
	r.mu.Lock()
	defer r.mu.Unlock()
	if len(r.samples) < 12 {
		r.samples = append(r.samples, s)
	}
}

// Add adds n to an integer coverage counter.
func (r *Report) Add(key string, n int) {
	r.mu.Lock()
	defer r.mu.Unlock()
	cur, _ := r.Coverage[key].(int)
	r.Coverage[key] = cur + n
}

// Set sets a coverage key.
func (r *Report) Set(key string, v any) {
	r.mu.Lock()
	defer r.mu.Unlock()
	r.Coverage[key] = v
}

// Get returns an integer coverage counter.
func (r *Report) Get(key string) int {
	r.mu.Lock()
	defer r.mu.Unlock()
	cur, _ := r.Coverage[key].(int)
	return cur
}

// And sets a boolean coverage key to the conjunction of its current value (default true) and b.
func (r *Report) And(key string, b bool) {
	r.mu.Lock()
	defer r.mu.Unlock()
	cur, ok := r.Coverage[key].(bool)
	if !ok {
		cur = true
	}
	r.Coverage[key] = cur && b
}

// Assume records an assumption.
func (r *Report) Assume(s string) { r.Assumptions = append(r.Assumptions, s) }

// EngineError marks the run as broken machinery (exit 2, never a VIOLATION line).
func (r *Report) EngineError(format string, a ...any) {
	r.mu.Lock()
	defer r.mu.Unlock()
	if r.engineErr == "" {
		r.engineErr = fmt.Sprintf(format, a...)
	}
}

type known struct{ prop, sig, what string }

func loadKnown() ([]known, error) {
	f, err := os.Open(filepath.Join(Root, "known_findings.txt"))
	if err != nil {
		if os.IsNotExist(err) {
			return nil, nil
		}
		return nil, err
	}
	defer f.Close()
	var out []known
	sc := bufio.NewScanner(f)
	for sc.Scan() {
		line := strings.TrimSpace(sc.Text())
		if !strings.HasPrefix(line, "known:") {
			continue // "fixed:" lines and comments suppress nothing
		}
		k := known{}
		rest := strings.Fields(strings.TrimPrefix(line, "known:"))
		var what []string
		for _, w := range rest {
			switch {
			case strings.HasPrefix(w, "property=") && k.prop == "":
				k.prop = strings.TrimPrefix(w, "property=")
			case strings.HasPrefix(w, "sig=") && k.sig == "":
				k.sig = strings.TrimPrefix(w, "sig=")
			default:
				what = append(what, w)
			}
		}
		k.what = strings.Join(what, " ")
		out = append(out, k)
	}
	return out, sc.Err()
}

// Finish writes the evidence file, prints result lines and returns the process exit code.
func (r *Report) Finish() int {
	r.mu.Lock()
	defer r.mu.Unlock()
	if r.engineErr != "" {
		fmt.Printf("ENGINE-ERROR property=%s %s\n", r.Property, r.engineErr)
		return 2
	}
	kn, err := loadKnown()
	if err != nil {
		fmt.Printf("ENGINE-ERROR property=%s cannot read known findings: %v\n", r.Property, err)
		return 2
	}
	exit := 0
	unknown := 0
	var knownSeen []string
	for _, sig := range r.order {
		v := r.viol[sig]
		isKnown := false
		for _, k := range kn {
			if k.prop == r.Property && k.sig == sig {
				isKnown = true
				fmt.Printf("KNOWN-FINDING: property=%s sig=%s %s\n", r.Property, sig, k.what)
				knownSeen = append(knownSeen, sig)
				break
			}
		}
		if isKnown {
			continue
		}
		unknown++
		h := sha256.Sum256([]byte(sig))
		path := filepath.Join(Root, "replays", fmt.Sprintf("%s-%s.json", r.Property, hex.EncodeToString(h[:6])))
		b, _ := json.MarshalIndent(map[string]any{"property": r.Property, "tier": r.Tier, "signature": sig, "what": v.What, "occurrences": v.Count, "replay": v.Replay}, "", " ")
		os.MkdirAll(filepath.Dir(path), 0o755)
		os.WriteFile(path, b, 0o644)
		fmt.Printf("VIOLATION property=%s replay=%s\n", r.Property, path)
		fmt.Printf("  signature: %s\n  what: %s\n", sig, v.What)
		exit = 1
	}
	cov := map[string]any{}
	for k, v := range r.Coverage {
		cov[k] = v
	}
	if len(r.samples) > 0 {
		cov["samples"] = r.samples
	}
	sort.Strings(knownSeen)
	if len(knownSeen) > 0 {
		cov["known_findings_observed"] = knownSeen
	}
	if r.Assumptions == nil {
		r.Assumptions = []string{}
	}
	ev := map[string]any{
		"property_id": r.Property,
		"tier":        r.Tier,
		"seed":        r.Seed,
		"level":       r.Level,
		"coverage":    cov,
		"assumptions": r.Assumptions,
		"wall_s":      time.Since(r.Start).Seconds(),
		"violations":  unknown,
	}
	b, _ := json.MarshalIndent(ev, "", " ")
	// (bin/seed-run points VERIF_EVIDENCE_DIR at a scratch directory: runs against a deliberately broken tree must
	// not overwrite the evidence of the unchanged tree)
	evdir := filepath.Join(Root, "evidence")
	if d := os.Getenv("VERIF_EVIDENCE_DIR"); d != "" {
		evdir = d
	}
	os.MkdirAll(evdir, 0o755)
	if err := os.WriteFile(filepath.Join(evdir, r.Property+".json"), b, 0o644); err != nil {
		fmt.Printf("ENGINE-ERROR property=%s cannot write evidence: %v\n", r.Property, err)
		return 2
	}
	fmt.Printf("RESULT property=%s tier=%s violations=%d known=%d wall=%.1fs coverage=%s\n", r.Property, r.Tier, unknown, len(knownSeen), time.Since(r.Start).Seconds(), brief(cov))
	return exit
}

func brief(cov map[string]any) string {
	keys := make([]string, 0, len(cov))
	for k := range cov {
		if k == "samples" || k == "rule" || k == "alphabet" {
			continue
		}
		keys = append(keys, k)
	}
	sort.Strings(keys)
	var sb strings.Builder
	for _, k := range keys {
		fmt.Fprintf(&sb, "%s=%v ", k, cov[k])
	}
	return strings.TrimSpace(sb.String())
}

// Partial is the serialisable content of a report, used to merge the results of shard processes.
type Partial struct {
	Coverage    map[string]any
	Violations  []*Violation
	Samples     []any
	EngineError string
}

// Dump writes the report's content to path (shard side).
func (r *Report) Dump(path string) error {
	r.mu.Lock()
	defer r.mu.Unlock()
	p := Partial{Coverage: r.Coverage, Samples: r.samples, EngineError: r.engineErr}
	for _, sig := range r.order {
		p.Violations = append(p.Violations, r.viol[sig])
	}
	b, err := json.Marshal(p)
	if err != nil {
		return err
	}
	return os.WriteFile(path, b, 0o644)
}

// MergeFile merges a shard's dump: integer counters are added, booleans are and-ed, everything else is set.
func (r *Report) MergeFile(path string) error {
	b, err := os.ReadFile(path)
	if err != nil {
		return err
	}
	var p Partial
	if err := json.Unmarshal(b, &p); err != nil {
		return err
	}
	for k, v := range p.Coverage {
		switch x := v.(type) {
		case float64:
			r.Add(k, int(x))
		case bool:
			r.And(k, x)
		default:
			r.Set(k, v)
		}
	}
	for _, v := range p.Violations {
		r.Violate(v.Sig, v.What, v.Replay)
	}
	for _, s := range p.Samples {
		r.Sample(s)
	}
	if p.EngineError != "" {
		r.EngineError("%s", p.EngineError)
	}
	return nil
}

// Shards runs one child process of this binary per part, at most par at a time, and merges their dumps. The
// child is invoked as: <binary> -child <property> <tier> <part> <dumpfile>.
func (r *Report) Shards(parts []string, par int, env func(part string) []string) {
	dir, err := os.MkdirTemp("", "vshard")
	if err != nil {
		r.EngineError("shards: %v", err)
		return
	}
	defer os.RemoveAll(dir)
	sem := make(chan struct{}, par)
	var wg sync.WaitGroup
	outs := make([]string, len(parts))
	errs := make([]string, len(parts))
	for i, part := range parts {
		wg.Add(1)
		sem <- struct{}{}
		go func() {
			defer wg.Done()
			defer func() { <-sem }()
			outs[i] = filepath.Join(dir, fmt.Sprintf("part%d.json", i))
			cmd := exec.Command(os.Args[0], "-child", r.Property, r.Tier, part, outs[i])
			cmd.Env = os.Environ()
			if env != nil {
				cmd.Env = append(cmd.Env, env(part)...)
			}
			ob, err := cmd.CombinedOutput()
			if err != nil {
				tail := string(ob)
				if len(tail) > 1500 {
					tail = tail[len(tail)-1500:]
				}
				errs[i] = fmt.Sprintf("shard %s: %v: %s", part, err, tail)
			}
		}()
	}
	wg.Wait()
	for i := range parts {
		if errs[i] != "" {
			r.EngineError("%s", errs[i])
			continue
		}
		if err := r.MergeFile(outs[i]); err != nil {
			r.EngineError("shard %s: %v", parts[i], err)
		}
	}
}

// Guard runs f; a panic of the code under test (or of the lock-leak watch of the native shims) becomes a violation
// with signature crash/<first frame of the code under test> instead of the death of the worker.
func (r *Report) Guard(what string, replay any, f func()) {
	defer func() {
		if p := recover(); p != nil {
			st := string(debug.Stack())
			site := "unknown"
			for _, ln := range strings.Split(st, "\n") {
				ln = strings.TrimSpace(ln)
				if (strings.HasPrefix(ln, "github.com/openconfig/gribigo/") || strings.HasPrefix(ln, "github.com/openconfig/ygot/")) && strings.Contains(ln, "(") {
					site = strings.TrimPrefix(ln[:strings.LastIndex(ln, "(")], "github.com/openconfig/")
					break
				}
			}
			ls := strings.Split(st, "\n")
			if len(ls) > 40 {
				ls = ls[:40]
			}
			r.Violate("crash/"+site, fmt.Sprintf("%s: panic: %v\n%s", what, p, strings.Join(ls, "\n")), replay)
		}
	}()
	f()
}
