#!/usr/bin/env python3
# bin/seed-prompts2.py <id>...: fourth-round seed prompts (with the ideas of rounds 1-3) + scratch worktrees /tmp/wt-<id>-r4
import json, subprocess, sys
props={}
for l in open('/verif/properties.jsonl'):
    p=json.loads(l); props[p['id']]=p
tmpl=open('/verif/bin/seed-prompt.tmpl').read()
avoid={
 'C01':'reordering the acknowledgements of held operations resolved in one call; skipping the payload update when a replace only removes fields; retrying a held operation in the network instance of the operation that triggered the retry',
 'C02':'retrying only the held operations of the same network instance after an install; dropping the reference of a member that a group REPLACE keeps; decrementing the wrong network instance\'s group counter when an IPv6 entry with a cross-instance reference is deleted',
 'C03':'decrementing the old group reference in the wrong network instance when an entry is retargeted; double counting of duplicate group members; releasing the member references of a group whose DELETE was refused; resetting a flushed instance\'s reference counters wholesale although entries of other instances still reference its groups',
 'C04':'sharing / mutating the election id object of a session in place; not lowering the remembered last election id of a session when it announces a lower one; treating a repeated election id of a session as a keep-alive that skips the election',
 'C05':'a fast path that skips the election when a session re-announces its previous id; comparing only the low word; check-then-act in runElection (reading the current id, releasing the lock, writing without re-checking); running the election with the highest id a session ever announced instead of the announced one',
 'C06':'using the wrong operation id for the FIB_PROGRAMMED result of a held operation; answering an operation with an empty network instance twice; not cancelling held operations when the primary role moves by an EQUAL election id; retrying held operations only in the network instance that just changed (cross-instance forward references never answered)',
 'C07':'a per-entry protobuf cache in GetRIB that Flush does not invalidate; losing pop_top_label; merging instead of replacing the payload of a next-hop that a group references; installing a held operation into the wrong network instance',
 'C08':'resetting the reference counters of a flushed instance; errors for shared or missing backup groups; letting the primary lower the election id that gates Flush; Flush skipping groups / next-hops that entries of other instances still reference',
 'C09':'a non-primary fast path in doModify that skips the missing-election-id check; continuing a batch after a fatal error; clearing the primary when the primary commits a protocol violation; un-negotiated sessions sharing one default parameter object that a negotiation writes through',
 'C10':'holding the election lock across a whole batch in doModify; the Get producer blocked on its message channel; skipping the session cleanup when the handler returns because Send failed; lock-order inversion between runElection and deleteClient',
 'C11':'lock order refCounts.mu -> RIB lock in canDelete versus Flush; writing election state under RLock; recursive RLock of the election mutex in Flush (deadlock with a pending writer); the Get drain goroutine stopping after one stop signal while doGet moves on to the next network instance',
 'C12':'a resolvability fast path that skips the unknown-network-instance check; unknown enum numbers; accepting an empty next-hop-group when a group with that id is installed; verdict depending on map iteration order for zero member indexes; a Flush with election id zero returning with the election read lock held',
 'C13':'keeping only the last error of a batched ModifyResponse; checking the recorded errors before taking the lock in AwaitConverged; tolerating a FAILED result for a non-pending id in FIB-ack mode',
 'C14':'not re-creating the modify channel in Reset after a send failure; blocking q() when the sender exited; Reset keeping the pending election / session-parameter entries; treating a Canceled receive error as an orderly close',
 'C15':'a match counter that is not reset per network instance and skips the delete pass; ignoring target-only network instances; comparing next-hop-groups as a subset (a shrinking group is treated as equal); the IPv6 replace branch of the reconciler rebuilding the replace list from the add list',
 'C16':'skipping the ADD notification when a replace only removes fields; hooks not installed on later network instances; memoising the resolved-entry snapshot per call so that several acknowledgements share one snapshot; taking the resolved-entry snapshot inside the hook goroutine instead of synchronously',
 'C17':'computing HasResultsCache comparison options from the first want only; not indexing IPv6/MPLS; a per-network-instance cursor in GetResponseHasEntries that is not updated when switching back; status.Convert making a non-gRPC error match a wanted Unknown status',
 'C18':'updating the current election id object in place in UpdateElectionID; WithInterfaceRef no longer clearing an earlier subinterface; next-hop-group builder handing out its own message with copy-on-write missing in WithBackupNHG',
 'C19':'a server-side reference leak on MPLS delete that only the compliance suite order exposes; a compliance test that used election id 0 when run first; a FIB-ACK test registered with the RIB variant; chk.HasResult caching comparison options process-wide',
}
for pid in sys.argv[1:]:
    arg=pid+'-r4'
    wt='/tmp/wt-'+arg
    subprocess.run(['git','-C','/repo','worktree','add','-q','--detach',wt,'HEAD'],check=True)
    p=props[pid]
    extra='Ideas that have ALREADY been used for this property - choose something clearly different (a different function, mechanism and manifestation): '+avoid.get(pid,'(none)')+'.\n\n'
    if pid in ('C10','C11','C13','C14'):
        extra+='Note for this property: the demonstration may rely on `go test -race`, on goroutines that are forced into a particular order with channels/hooks available in the test, on a stub gRPC stream/server written in the test, or on a bounded stress loop (say so, and say how often it fails); a deterministic demonstration is preferred when you can build one.\n\n'
    if pid == 'C19':
        extra+='Note for this property: the change may be in the compliance suite itself (compliance/*.go, chk/, fluent/) - e.g. a test that silently stops checking its requirement, or that depends on the order / starting election id / network instance names - or in the reference server so that some test order fails. The demonstration is then a Go test that runs compliance tests (see compliance/compliance_test.go and cmd/ccli for how they are driven) in a particular order or against a deliberately broken in-test server wrapper.\n\n'
    open('/tmp/prompt-%s.txt'%arg,'w').write(tmpl.format(wt=wt,title=p['title'],statement=p['statement'],quant=p['quantifier']['text'],extra=extra))
    print('prepared',arg)
