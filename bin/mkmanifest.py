#!/usr/bin/env python3
"""Generates /verif/MANIFEST.json from the table below (kept in one place so it stays valid)."""
import json, os, subprocess
ROOT = os.path.dirname(os.path.dirname(os.path.abspath(__file__)))
BASE = json.load(open('/root/.vp/BASELINE.json'))['cmd'] if os.path.exists('/root/.vp/BASELINE.json') else ''

# id -> (category, technique, text, note, design_ref)
CHECKS = {}
exec(open(os.path.join(ROOT, 'bin', 'checks_table.py')).read())

allids = ['C%02d' % i for i in range(1, 20)]
checks = []
for pid in allids:
    if pid not in CHECKS:
        continue
    c = CHECKS[pid]
    checks.append({
        'property_id': pid,
        'quick_cmd': 'bin/check %s quick' % pid,
        'thorough_cmd': 'bin/check %s thorough' % pid,
        'evidence_file': '/verif/evidence/%s.json' % pid,
        'replay_cmd_template': 'bin/check %s replay {path}' % pid,
        'engine': c.get('engine', 'history-bfs'),
        'level_claimed': {'category': c['category'], 'text': c['text'], 'design_ref': c['design_ref']},
        'level_note': c['note'],
        'technique': c['technique'],
    })
na = [{'property_id': p, 'reason': NOT_APPLICABLE.get(p, 'check not built yet in this round; see DESIGN.md section 3 for the plan')} for p in allids if p not in CHECKS]
hooks_commits = subprocess.run(['git', '-C', '/repo', 'log', '--format=%h %s', '--grep=^verif hooks'], capture_output=True, text=True).stdout.strip().splitlines()
m = {
    'version': 1,
    'setup_cmd': 'bin/setup',
    'hooks': {
        'guard': 'verif',
        'enable': 'go build -tags verif (bin/build); the hooks are add-only files */verif_hooks.go with //go:build verif',
        'baseline_off_cmd': BASE,
        'source_commits': [l.split()[0] for l in hooks_commits],
        'add_only': True,
    },
    'engines': ENGINES,
    'checks': checks,
    'not_applicable': na,
    'notes': NOTES,
}
json.dump(m, open(os.path.join(ROOT, 'MANIFEST.json'), 'w'), indent=1)
print('wrote MANIFEST.json with', len(checks), 'checks,', len(na), 'not_applicable')
