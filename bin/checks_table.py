NOTES = ("All checks explore the real Go code of /repo (built with -tags verif from the current working tree); "
         "no stand-alone model. See DESIGN.md. Exit 2 + ENGINE-ERROR means broken machinery, never a violation.")
ENGINES = [
    {'name': 'history-bfs', 'path': 'mc/bfs.go', 'serves_properties': ['C01', 'C02', 'C03', 'C16'],
     'kind_free_text': 'explicit-state breadth-first search over operation histories on fresh real objects (replay + one letter), canonical-state deduplication, reference-model oracle in every state'},
]
NOT_APPLICABLE = {}
CHECKS['C01'] = dict(
    category='model_checking', design_ref='DESIGN.md §3 C01',
    technique='explicit-state BFS over operation histories on the real rib.RIB with reference-model fold oracle',
    text=('Every history of the 29-letter ADD/REPLACE/DELETE/Flush alphabet (2 network instances, 5 entry kinds, cross-instance references, '
          'MPLS label aliasing) up to the stated depth is executed on a fresh real rib.RIB, with forward references allowed and disallowed (and once with the consistency checks of the RIB disabled altogether); after every '
          'step RIBContents() must equal the fold of the acknowledgements the RIB itself returned. Exhaustive within the depth bound, states deduplicated '
          'by canonical real state (contents, held operations, counters).'),
    note='Bounded depth (quick 4, thorough 6 or budget) and a 2-key-per-kind alphabet; payloads limited to fields that round-trip (payload fidelity is C07); ygot-internal map order not controlled.')
CHECKS['C02'] = dict(
    category='model_checking', design_ref='DESIGN.md §3 C02',
    technique='explicit-state BFS over operation histories + all arrival orders of dependency graphs on the real rib.RIB, resolvability oracle from the reference model',
    text=('All arrival orders (every permutation prefix, deduplicated) of five dependency graphs of up to 7 operations, plus every mixed history of a 22-letter '
          'alphabet up to the depth bound, run on the real rib.RIB in both forward-reference modes. Oracles in every state: an ack only when all references are installed in the fold; '
          'no installed entry dangles (while only Modify/full flush happened); no held operation is resolvable; the verdict of each operation (acked / held / FAILED) equals the '
          'sequential specification; invalid references are FAILED, never held; nothing is answered twice; every referenced group / next-hop is protected by a positive deletion counter (a referenced but unprotected entry is one acknowledged DELETE away from a dangling one).'),
    note='Bounded depth/graph size; held-operation walk order is Go map order of the run (any order is legal for the oracle); 2 network instances.')
CHECKS['C03'] = dict(
    category='model_checking', design_ref='DESIGN.md §3 C03',
    technique='explicit-state BFS over retarget/delete/flush histories on the real rib.RIB; delete verdict compared with referrers counted from installed state',
    text=('Every history of a 37-letter alphabet biased to reference retargeting (implicit/explicit replace moving a reference, duplicate group members, cross-instance groups, an IPv6 key in a valid non-canonical spelling, '
          'partial and full flushes) up to the depth bound; in every reached state the protection of every installed next-hop / group (counter > 0, read through the verif hook) must equal '
          '"has an installed referrer" computed by scanning RIBContents, and every DELETE verdict must equal that predicate.'),
    note='Bounded depth (quick 4, thorough 6 or budget); exact counter values are not compared, only what decides a verdict.')
CHECKS['C16'] = dict(
    category='model_checking', design_ref='DESIGN.md §3 C16',
    technique='explicit-state BFS over operation histories on the real rib.RIB with the post-change hook folded into a mirror; resolved-entry hook: the same histories under the controlled runtime with every delivered snapshot compared with the model',
    text=('Every history of a 22-letter alphabet up to the depth bound, for hook registration before and after creation of the network instance: folding the notifications '
          '(ADD sets, DELETE removes, nil DELETE is a no-op) must reproduce RIBContents() in every network instance after every step, for Modify-style calls, held-operation resolution and Flush. One configuration creates the second network instance only after entries were installed in the default one and the contents were read (post-change hook and resolved-entry hook).'),
    note='Resolved-entry hook tier: 16-letter alphabet from the empty RIB and three start states (one asymmetric: the second network instance exists but is empty) under the controlled runtime (the hook runs in its own goroutine) in two schedules - hook goroutine runs after every step / only after the whole history (lagging consumer); each ADD snapshot must contain and each DELETE snapshot lack the announced entry, announcements must match acknowledgements, and a delivered snapshot must not change afterwards. Post-change searches are repeated under descending map order. Bounded depth.')
ENGINES.append({'name': 'input-enumeration', 'path': 'harness/flushenum, harness/getenum, harness/malformed', 'serves_properties': ['C07', 'C08', 'C12'],
     'kind_free_text': 'bounded-exhaustive enumeration of structured inputs (catalogue x request x decision-table cell; builder-call subsets; mutation closure) executed on fresh real servers against a reference decision table / model'})
ENGINES[0]['serves_properties'] += ['C04', 'C05', 'C06', 'C07']
CHECKS['C04'] = dict(
    category='model_checking', design_ref='DESIGN.md §3 C04',
    technique='explicit-state BFS over connect/announce/operate/disconnect steps of 2-3 sessions on the real server handlers, election reference model',
    text=('Every history (to the depth bound) of open / close / announce(id) / operate(stamp, entry) steps of 2 (thorough: 3) sessions over a lattice of 128-bit ids with conflicting word orders, '
          'executed on a real server.Server through the verif wrappers of newClient/checkParams/updateParams/runElection/doModify/deleteClient. An operation is authorised iff the model says the session is primary and '
          'its stamp equals both its last announced id and the maximum announced; every other operation must be FAILED or end the RPC and must leave RIB, held set and election state byte-identical.'),
    note='A step is one message handled to completion (interleavings inside a message are C05/C11). The Modify receive loop itself is not in this tier (C09). Bounded depth 5/6.')
CHECKS['C05'] = dict(
    category='model_checking', design_ref='DESIGN.md §3 C05',
    technique='explicit-state BFS over announcement histories + exhaustive id-lattice sequences on the real runElection; (schedule exploration of concurrent runElection is the second tier)',
    text=('Every announcement history of 2-3 sessions to the depth bound, and every sequence of 2 (thorough: 3) announcements over the word lattice {0,1,2,2^64-1}^2 by different sessions, on the real runElection: '
          'each response must carry the maximum id announced so far compared as 128-bit integers, the server must hold it, and the primary must be the most recent announcer of an id >= all earlier ones. The histories also contain Flush RPCs carrying every id of the lattice (and override): whatever its verdict, a Flush never changes the election.'),
    note='Bounded depth; ids drawn from an order-complete lattice (the code only compares words).')
CHECKS['C06'] = dict(
    category='model_checking', design_ref='DESIGN.md §3 C06',
    technique='explicit-state BFS over request batches on the real doModify of 2 sessions with held / dead / invalid operations and primary hand-over, per-stream result accounting; stateless schedule DFS (deviation bound 2, thorough 4, happens-before state cache) of two or three sessions\' programs as threads with the set of outcomes of all step-wise sequential interleavings on the real server as the oracle',
    text=('Every history to the depth bound of single operations and 2-3 operation batches (held entries, releasing entries, REPLACE that goes dead, DELETEs, empty and unknown network instance) sent by two sessions '
          'that take the primary role from each other, in RIB-ack and FIB-ack mode, on the real doModify: per (stream, id) the results must be exactly {FAILED} or {RIB} or {RIB then FIB}; no id that the stream did not send; '
          'every operation of the live primary is answered unless it is still held; the RIB equals the fold of RIB_PROGRAMMED results. Concurrent tier: 50 combinations of small session programs (announce, batches with forward references, DELETE / REPLACE of the other session\'s key, re-announce, leave; RIB and FIB acknowledgements; an optional third session that only announces) run as threads on the real handlers; each execution\'s outcome (every session\'s answers in order, installed entries, held operations, election state) must be an outcome of some step-wise interleaving of the same programs on a fresh sequential server.'),
    note='Handler tier (results collected from the channels doModify writes to); the goroutine plumbing of Modify is covered by the schedule tier when present. Bounded depth 5/6.')
CHECKS['C07'] = dict(
    category='model_checking', engine='input-enumeration', design_ref='DESIGN.md §3 C07',
    technique='bounded-exhaustive input enumeration (all 8192 builder-call subsets, payload alphabets, catalogue x scope x table) on the real Get path + history BFS with a Get after every step',
    text=('(a) every subset of the 13 fluent next-hop builder calls and a field alphabet covering every field of every AFT message is programmed into a real RIB and read back through the real Server.Get over the in-memory transport: '
          'the returned payload must equal the programmed one field for field; (b) 14 catalogue RIBs x {DEFAULT, VRF, all} x {5 tables, ALL}: the stream must be exactly the installed entries in scope, ALL the disjoint union of the tables, '
          'undefined scopes return nothing; FromGetResponses rebuilds the source; (c) history tier: every history to depth 3 (thorough 5) from three start states with the real GetRIB run after every step: the stream equals the fold of acknowledged operations. The scope catalogue and one history search are repeated with the second network instance created late (after requests over all instances were served).'),
    note='Schema-rejected payload combinations create no expectation. Get runs with real goroutines (native mode) — its result is schedule-independent; abandonment is C10.')
CHECKS['C08'] = dict(
    category='model_checking', engine='input-enumeration', design_ref='DESIGN.md §3 C08',
    technique='exhaustive enumeration of RIB catalogue x Flush target x election decision table on the real Server.Flush against the specification table',
    text=('16 RIBs (shared / missing / circular / self backups, cross-instance references in both directions, held operations) x 6 targets x 8 (thorough 11) election fields x 3 (thorough 6) learnt ids x both iteration orders of the maps of the RIB on a fresh real server: '
          'a malformed or unauthorised request gets one of the codes the specification assigns to the malformations that apply and changes nothing; an authorised one empties exactly the named instances, answers OK, '
          'and leaves deletion protection equal to the referrers that remain (checked on counters and behaviourally by re-installing groups that remaining entries still point at). The whole table is run once more on a server whose second network instance is created by Server.AddNetworkInstance after the server has already served a Flush and reads over all instances.'),
    note='Where specification and proto comments allow two answers (override with no id learnt; coinciding malformations) the oracle accepts the set.')
CHECKS['C12'] = dict(
    category='model_checking', engine='input-enumeration', design_ref='DESIGN.md §3 C12',
    technique='bounded-exhaustive mutation closure (protoreflect walk x operator set; singles, thorough: pairs) of valid AFT operations / Get / Flush requests in 3 pre-states on the real handlers',
    text=('Every single structured mutation (thorough: every pair) of one valid message per entry kind and operation type — clear/empty sub-message, other oneof arm, undefined/zero/last enum, boundary integers, malformed strings, '
          'empty/duplicated lists — applied in three pre-states (empty, chain installed and referenced, held operations) and under both iteration orders of the maps of the code (ordered-map seam) through the real doModify, Get (under the controlled runtime so a goroutine panic is a verdict) and Flush: '
          'no panic, the call returns, a rejected request leaves RIB / held set / counters identical, and the invalid classes the property lists are rejected. Every single-mutation case, Get and Flush is run a second time inside ONE controlled execution followed by a liveness probe (a new session negotiates, wins the election, programs an entry, reads it back, flushes): a lock, goroutine or channel left behind is the scheduler\'s exact deadlock verdict. 405 requests of THREE operations (two invalid mutants and the valid seed) check that every operation of a request is answered exactly once under its own id.'),
    note='Byte-level fuzzing of the wire format is a different family and not attempted; for a DELETE naming a syntactically invalid key that aliases nothing either verdict is accepted.')
ENGINES.append({'name': 'schedule-dfs', 'path': 'rt/ (controlled scheduler + shims), cmd/vinstr (overlay instrumenter), mc/dfs.go', 'serves_properties': ['C05', 'C11'],
     'kind_free_text': 'stateless depth-first exploration of thread schedules and environment choices of the real, source-instrumented code under a cooperative scheduler, with iterative preemption / deviation bounding; exact deadlock detection; Go race detector made scheduler-blind for data races'})
CHECKS['C05']['technique'] = 'explicit-state BFS over announcement histories + exhaustive id-lattice sequences on the real runElection; stateless schedule DFS (preemption bound 2/3) of concurrent runElection with porcupine linearizability check'
CHECKS['C05']['text'] += (' Schedule tier: 2-3 threads announce colliding ids on the real runElection while a reader polls the election, every schedule with at most 2 (thorough 3) preemptions; '
                          'each complete call/return history must be linearizable w.r.t. the sequential election model (porcupine) and the final state must be (maximum, an announcer of it).')
CHECKS['C11'] = dict(
    category='model_checking', engine='schedule-dfs', design_ref='DESIGN.md §3 C11, §2.2',
    technique='stateless schedule DFS with deviation bounding and happens-before state caching over 12 three/four-thread RPC scenarios on the -race build; HB-faithful shims make the Go race detector a per-schedule oracle',
    text=('Twelve scenarios of 3-4 threads with colliding keys (a Get racing one writer that deletes a whole chain: the Get must return, per network instance, exactly one of the states the writer produced; a primary hand-over while the old primary\'s batch with forward references is being applied and the new primary programs forward references of its own: per-session acknowledgements = installed entries, final election state; announce/announce/read; Modify chain vs Get vs Flush; negotiate/negotiate/disconnect; Flush(id) vs announce; primary vs non-primary on one key; '
          'RIB add/delete with resolved-entry hook goroutine; AddNetworkInstance vs Get vs Flush; RIBContents vs cross-instance Flush vs AddNetworkInstance; deletes vs Flush vs Get; a Get over both populated instances abandoned by its client vs Modify vs Flush) run on the real server handlers under the controlled scheduler, '
          'every schedule within 2 (thorough 3) deviations from the default scheduler. Oracles per execution: Go race detector reports (hand-offs hidden with RaceDisable, program happens-before declared on tokens), exact deadlock '
          '(no enabled thread), panic, every call returns, election linearizable, quiescent RIB = acknowledged operations, a concurrent Get is a snapshot of each instance. Executions that reach a state (hash of every thread\'s causal past, pending operation and the modelled synchronisation objects) already expanded with the same remaining budget are cut (self-tested against the search without the cache: VERIF_DIFF=1). The two disconnect schedules of C10 (a session cut by cancel / transport failure with a batch in flight, every schedule within the deviation bound, then the liveness probe) run under this command too, in the -race build.'),
    note='Participants and bound are fixed (3-4 threads, <=3 deviations); sessions are driven at the handler API (the per-stream goroutine plumbing is C06/C10); weak-memory effects without a detectable race are out of scope. The race oracle is self-tested by cmd/rtlitmus.')
ENGINES.append({'name': 'stream-history-bfs', 'path': 'harness/streams + wire/ + rt/', 'serves_properties': ['C09', 'C10'],
     'kind_free_text': 'explicit-state BFS over message / fault histories on REAL Modify and Get streams: the handler goroutines run as threads of the controlled runtime behind the in-memory transport, each step is run to quiescence under the default schedule, whole histories are re-executed on a fresh server'})
CHECKS['C09'] = dict(
    category='model_checking', engine='stream-history-bfs', design_ref='DESIGN.md §3 C09',
    technique='explicit-state BFS over message sequences on 2-3 real Modify streams (server handler + receive loop + result pump under the controlled runtime), session/election reference model with status-code sets from the specification',
    text=('Every sequence to depth 6 (thorough 7, 3 sessions) of open / parameters (5, thorough all 8 mode combinations) / election id (zero, low, high) / operation (stamped, unstamped, batch [violating, valid]) / the three two-field messages / half-close '
          'on real Modify RPCs of the real server, from the empty server, from an established primary and from a primary with a held operation. For each message the model yields OK or the set of status codes and ModifyRPCErrorDetails reasons that specification §4.1 and the compliance suite allow; '
          'a terminating violation must not send a response first, must leave RIB, held operations, election state and every other session and stream untouched, and must remove the failed session from the session table. After every terminating violation a fresh session must be able to negotiate (with other parameters when no negotiated session is live), win the election, program an entry, read it back and flush: the failed session must not constrain later ones - "blocked for ever" is the scheduler\'s verdict.'),
    note='Each message is run to quiescence under the default schedule (interleavings inside a message are C11); where the statement is silent (a live session that has not negotiated yet) both answers are accepted.')
CHECKS['C10'] = dict(
    category='fault_enumeration', engine='stream-history-bfs', design_ref='DESIGN.md §3 C10',
    technique='explicit-state BFS over fault histories (half-close / cancel / transport failure at every message boundary and mid-request; Get abandoned after k responses) on real streams; liveness probe decided by the scheduler\'s exact deadlock verdict',
    text=('Every history to depth 6 (thorough 7, 2 sessions) of session steps, the three disconnect modes, requests cut immediately after they were sent, and Gets abandoned after 0..2 (3) responses in two modes, from the empty server, from a server holding a chain of entries, and from a server with four entries in every table of the default instance (a Get of each single table abandoned inside that table\'s loop). '
          'After every fault: installed entries and election id identical, the session removed, and a fresh session must negotiate, win the election, program an entry, Get it and Flush — run as a thread; "blocked forever" is the scheduler\'s verdict, not a timeout.'),
    note='Stream contract of wire/ (DESIGN §2.4), not HTTP/2. Schedule tier: a session that sent parameters, election id and a 4-operation batch back to back is cut (cancel / transport failure) under every schedule within deviation bound 2 (thorough 3) of the server\'s goroutines, then the same probe. distinct_nontrivial counts histories containing at least one fault letter plus the schedule-tier executions.')
ENGINES[-2]['serves_properties'] += ['C13', 'C14']
CHECKS['C13'] = dict(
    category='model_checking', engine='schedule-dfs', design_ref='DESIGN.md §3 C13',
    technique='stateless schedule DFS (deviation bound 1, thorough 2) of the real client (sender, receiver, waiter threads) x exhaustive enumeration of the scripted server\'s reply plans, ledger oracle',
    text=('The real client.Client runs under the controlled runtime against a scripted server behind the in-memory transport. For 1-2 (thorough 3) operations in RIB-ack and FIB-ack mode the server\'s reply plan ranges over every per-operation outcome '
          '(programmed / FAILED / FIB_FAILED), every interleaving respecting RIB-before-FIB, every batching into responses, plus unknown-id, duplicate-terminal and withheld-terminal variants; operations are queued before or after StartSending; the answer to the session parameters arrives at once or only after the first batch of results; a second application goroutine calls StopSending and Q while StartSending flushes queued requests (every request must reach the wire exactly once); '
          'every schedule within the deviation bound. Oracle: AwaitConverged succeeds only after the server sent a terminal result for every operation, with nothing pending, no recorded error, exactly one terminal result per operation carrying its type and key; '
          'protocol violations and withheld results never yield success; the waiter never livelocks against a well-behaved server. The ledger is also applied across a broken session (send / receive fault with requests still buffered, Reset, a request handed over before or after Connect): every operation of the broken session is pending or resulted, the new stream carries and accounts for the new operations only.'),
    note='Virtual time (the 100 ms poll is a scheduling point); <= 3 operations; an unknown id carrying RIB_PROGRAMMED in FIB-ack mode is deliberately tolerated by the client (late RIB ack) and is not used as a violation.')
CHECKS['C14'] = dict(
    category='fault_enumeration', engine='schedule-dfs', design_ref='DESIGN.md §3 C14',
    technique='fault enumeration (stream error at every message index, send and receive side, 2-3 status codes, followed by Close or Reset+Connect; every non-OK status class at one index per side) x stateless schedule DFS of the real client; exact goroutine census from the scheduler',
    text=('For every fault case the application thread queues a burst of 7 requests (more than the modify buffer) while the stream fails; every schedule within 1 (thorough 2) deviations. Oracle: all Q calls return, AwaitConverged returns the error '
          '(deadlock / livelock of any client thread is the scheduler\'s verdict), Done is signalled, Close / Reset return, no sender or receiver thread is left; after Reset + Connect the client holds no pending / results / errors, the new stream carries exactly '
          'params, election id and the new operation, and the new exchange converges - also when the application hands a request over between Reset and Connect (it waits in the send queue like on a never-connected client). Every operation of the burst is pending or resulted when AwaitConverged has returned.'),
    note='Faults at the stream API (wire/), not inside HTTP/2. distinct_nontrivial = distinct (fault, outcome) observations.')
ENGINES[1]['serves_properties'] += ['C15', 'C17', 'C18']
ENGINES[1]['path'] += ', harness/reconc, harness/chkenum, harness/fluentenum'
CHECKS['C15'] = dict(
    category='model_checking', engine='input-enumeration', design_ref='DESIGN.md §3 C15',
    technique='exhaustive enumeration of ordered pairs of reference-closed RIBs (generated catalogue) x target-only instance variants through the real reconciler and real AddEntry/DeleteEntry',
    text=('The catalogue is every reference-closed choice of one payload variant (or absence) per key of a universe over two network instances (payload variants differ by value AND by the set of leaves they carry, so that a replace has to remove leaves; quick 228 states over two universes, thorough larger). For every ordered pair (intended, target) '
          '(x three variants of a network instance only the target has) the real reconciler\'s operations are applied to the real target RIB in the documented order with reference checking on: each must succeed individually and at once, '
          'the target must end up equal to the intended RIB in every network instance, equal RIBs yield no operations, ids are distinct and count up from the base.'),
    note='Emission order inside a category follows map order: every pair is run under ascending and descending order of the instrumented maps (other permutations are not enumerated); local RIB targets only (the remote target is the same diff).')
CHECKS['C17'] = dict(
    category='model_checking', engine='input-enumeration', design_ref='DESIGN.md §3 C17',
    technique='bounded-exhaustive enumeration of (result lists, wants, option subsets), Get responses x wants, client errors x wanted statuses x options on the real chk helpers with a fatal-capturing testing.TB, against a direct definition of "present"',
    text=('HasResult over all result lists of length <= 2 (thorough 3) of an alphabet of operation results (5 entry kinds x ids x statuses x types x keys, election and parameter results, nil) x every want x the 4 option subsets; '
          'HasResultsCache over want lists of length <= 2: never passes where HasResult fails, agrees when index keys are unique; GetResponseHasEntries over all 1024 subsets of 5 kinds x 2 instances x wants (present / other key / other instance); '
          'HasNSendErrors / HasNRecvErrors / HasRecvClientErrorWithStatus over error shapes (codes x messages x three details variants) x counts x wanted statuses (with message, with details, with both) x options in both orders. A helper must call Fatal iff the item is absent.'),
    note='The reference is written from the helper documentation, not from its code. Pairs/triples of results are drawn from a reduced alphabet (stated in evidence).')
CHECKS['C18'] = dict(
    category='model_checking', engine='input-enumeration', design_ref='DESIGN.md §3 C18',
    technique='bounded-exhaustive enumeration of fluent builder call sequences (length <= 4, thorough 5) and client call sequences (length <= 5, thorough 6) against a field-map model; queued messages compared byte-wise before/after later calls',
    text=('Every sequence of With*/Add* calls with 2-value argument domains per entry kind: OpProto()/EntryProto() must equal the independently rendered field map after every call and messages obtained earlier must not change. '
          'Every sequence of AddEntry / ReplaceEntry / DeleteEntry (one or two entries, entry with its own election id) / UpdateElectionID on a real fluent client in elected-primary and all-primary mode - each program with a fresh Modify() wrapper per call, on ONE wrapper held for all calls, and chained on the returned wrappers - observed through the real client\'s pending queue: '
          'ids 1,2,3,..., requested operation type, stamp = id most recently set when queued unless the entry has its own, and no queued operation is altered by a later call. Every client program ends with StartSending on a recording stub: the operations that reach the Modify stream must equal, in order, what was queued.'),
    note='No transport involved (operations are observed in the client before sending).')
ENGINES.append({'name': 'suite-history-search', 'path': 'harness/compl + wire/ + rt/', 'serves_properties': ['C19'],
     'kind_free_text': 'explicit-state search whose transitions are whole compliance tests on one long-lived reference server (real fluent client + real client + real server as threads of the controlled runtime, virtual time): closure over canonical server states, all ordered pairs, shuffle permutations; fault-wrapper catalogue'})
CHECKS['C19'] = dict(
    category='model_checking', engine='suite-history-search', design_ref='DESIGN.md §3 C19',
    technique='explicit-state closure search over canonical server states with whole compliance tests as transitions + exhaustive ordered pairs + all shuffle permutations under the controlled runtime; fault-wrapper catalogue x designated tests',
    text=('Order independence: from every reachable canonical state of one long-lived reference server (contents, held operations, counters, sessions, relation of the learnt election id to the suite counter) every eligible compliance test is run and must pass; '
          'the reachable set closes (6 states), so every finite order passes by induction; independently every ordered pair of the 76 tests is run (quick: main configuration; thorough: all configurations), for starting election ids 1, 7 (thorough), 2^40 and the forward-reference-free server, '
          'and the random-order test is run under every permutation. Sensitivity: 47 wrappers that break one protocol requirement at the gRIBI API (no FIB acks, stale-stamped / never-announced-id operations acknowledged, idempotent delete failed, Get drops an entry / is stale / tags the wrong instance, Flush no-op / wrong scope / election unchecked / no instance accepted, '
          'election id off by one, repeated / mismatched / unsupported parameters accepted, multi-field messages accepted, results sent to every session, REPLACE of a missing entry, DELETE of a referenced entry, invalid IPv4 entry, unknown instance acknowledged, zero election id accepted, entries dropped when the primary changes, forward references / implicit replace / metadata / MPLS / IPv6 / cross-instance references rejected, lower election id honoured, election id accepted on an ALL_PRIMARY session, groups with several next-hops / next-hops with identical contents / IPv4 / groups rejected, DELETE of an installed entry failed, Flush answered with an error / a non-OK result / the wrong status code / missing or wrong error details, Get refused, a second matching session refused, both sessions ended on a parameter mismatch): every test designated for the requirement must fail.'),
    note='Default schedule per test (interleavings inside the client are C13/C14); timeouts are virtual: "waits forever" is the livelock verdict. Alternative network-instance names are exercised in thorough only. The designation table is in harness/compl/faulty.go with its justification.')
