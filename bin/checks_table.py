NOTES = ("All checks explore the real Go code of /repo (built with -tags verif from the current working tree); "
         "no stand-alone model. See DESIGN.md. Exit 2 + ENGINE-ERROR means broken machinery, never a violation.")
ENGINES = [
    {'name': 'history-bfs', 'path': 'mc/bfs.go', 'serves_properties': ['C01', 'C02', 'C03', 'C16'],
     'kind_free_text': 'explicit-state breadth-first search over operation histories on fresh real objects (replay + one letter), canonical-state deduplication, reference-model oracle in every state'},
]
NOT_APPLICABLE = {}
CHECKS['C01'] = dict(
    category='model_checking', design_ref='DESIGN.md §3 C01',
    technique='explicit-state BFS over operation histories on the real rib.RIB with reference-model fold oracle',
    text=('Every history of the 29-letter ADD/REPLACE/DELETE/Flush alphabet (2 network instances, 5 entry kinds, cross-instance references, '
          'MPLS label aliasing) up to the stated depth is executed on a fresh real rib.RIB, with forward references allowed and disallowed; after every '
          'step RIBContents() must equal the fold of the acknowledgements the RIB itself returned. Exhaustive within the depth bound, states deduplicated '
          'by canonical real state (contents, held operations, counters).'),
    note='Bounded depth (quick 4, thorough 6 or budget) and a 2-key-per-kind alphabet; payloads limited to fields that round-trip (payload fidelity is C07); ygot-internal map order not controlled.')
CHECKS['C02'] = dict(
    category='model_checking', design_ref='DESIGN.md §3 C02',
    technique='explicit-state BFS over operation histories + all arrival orders of dependency graphs on the real rib.RIB, resolvability oracle from the reference model',
    text=('All arrival orders (every permutation prefix, deduplicated) of five dependency graphs of up to 7 operations, plus every mixed history of a 22-letter '
          'alphabet up to the depth bound, run on the real rib.RIB in both forward-reference modes. Oracles in every state: an ack only when all references are installed in the fold; '
          'no installed entry dangles (while only Modify/full flush happened); no held operation is resolvable; the verdict of each operation (acked / held / FAILED) equals the '
          'sequential specification; invalid references are FAILED, never held; nothing is answered twice.'),
    note='Bounded depth/graph size; held-operation walk order is Go map order of the run (any order is legal for the oracle); 2 network instances.')
CHECKS['C03'] = dict(
    category='model_checking', design_ref='DESIGN.md §3 C03',
    technique='explicit-state BFS over retarget/delete/flush histories on the real rib.RIB; delete verdict compared with referrers counted from installed state',
    text=('Every history of a 34-letter alphabet biased to reference retargeting (implicit/explicit replace moving a reference, duplicate group members, cross-instance groups, '
          'partial and full flushes) up to the depth bound; in every reached state the protection of every installed next-hop / group (counter > 0, read through the verif hook) must equal '
          '"has an installed referrer" computed by scanning RIBContents, and every DELETE verdict must equal that predicate.'),
    note='Bounded depth (quick 4, thorough 6 or budget); exact counter values are not compared, only what decides a verdict.')
CHECKS['C16'] = dict(
    category='model_checking', design_ref='DESIGN.md §3 C16',
    technique='explicit-state BFS over operation histories on the real rib.RIB with the post-change hook folded into a mirror',
    text=('Every history of a 22-letter alphabet up to the depth bound, for hook registration before and after creation of the network instance: folding the notifications '
          '(ADD sets, DELETE removes, nil DELETE is a no-op) must reproduce RIBContents() in every network instance after every step, for Modify-style calls, held-operation resolution and Flush.'),
    note='Post-change hook only at this tier; the resolved-entry hook (goroutine) is exercised by the scheduler-based tier when built. Bounded depth.')
