NOTES = ("All checks explore the real Go code of /repo (built with -tags verif from the current working tree); "
         "no stand-alone model. See DESIGN.md. Exit 2 + ENGINE-ERROR means broken machinery, never a violation.")
ENGINES = [
    {'name': 'history-bfs', 'path': 'mc/bfs.go', 'serves_properties': ['C01', 'C02', 'C03', 'C16'],
     'kind_free_text': 'explicit-state breadth-first search over operation histories on fresh real objects (replay + one letter), canonical-state deduplication, reference-model oracle in every state'},
]
NOT_APPLICABLE = {}
CHECKS['C01'] = dict(
    category='model_checking', design_ref='DESIGN.md §3 C01',
    technique='explicit-state BFS over operation histories on the real rib.RIB with reference-model fold oracle',
    text=('Every history of the 29-letter ADD/REPLACE/DELETE/Flush alphabet (2 network instances, 5 entry kinds, cross-instance references, '
          'MPLS label aliasing) up to the stated depth is executed on a fresh real rib.RIB, with forward references allowed and disallowed; after every '
          'step RIBContents() must equal the fold of the acknowledgements the RIB itself returned. Exhaustive within the depth bound, states deduplicated '
          'by canonical real state (contents, held operations, counters).'),
    note='Bounded depth (quick 4, thorough 6 or budget) and a 2-key-per-kind alphabet; payloads limited to fields that round-trip (payload fidelity is C07); ygot-internal map order not controlled.')
