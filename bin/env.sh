# sourced by bin/setup and bin/check
export GOFLAGS=-mod=mod
export GOPROXY=off
unset GOTOOLCHAIN GOSUMDB 2>/dev/null || true
export VERIF_ROOT="${VERIF_ROOT:-$(cd "$(dirname "${BASH_SOURCE[0]}")/.." && pwd)}"
# Build output directory (default build/). VERIF_REPO, if set, makes the build use another checkout of openconfig/gribigo
# than /repo (bin/seed-run uses a scratch worktree with a deliberately broken tree and its own build directory, so that
# seeded runs neither touch /repo nor disturb checks that run at the same time). The registered commands never set it.
export VERIF_BUILD="${VERIF_BUILD:-$VERIF_ROOT/build}"
if [ -n "$VERIF_REPO" ]; then
  mkdir -p "$VERIF_BUILD"
  sed "s#=> /repo\$#=> $VERIF_REPO#" "$VERIF_ROOT/go.mod" > "$VERIF_BUILD/alt.mod"
  cp "$VERIF_ROOT/go.sum" "$VERIF_BUILD/alt.sum"
  export GOFLAGS="-mod=mod -modfile=$VERIF_BUILD/alt.mod"
fi
