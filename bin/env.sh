# sourced by bin/setup and bin/check
export GOFLAGS=-mod=mod
export GOPROXY=off
unset GOTOOLCHAIN GOSUMDB 2>/dev/null || true
export VERIF_ROOT="${VERIF_ROOT:-$(cd "$(dirname "${BASH_SOURCE[0]}")/.." && pwd)}"
