#!/usr/bin/env python3
# bin/seed-prompts.py <id>...: creates scratch worktrees /tmp/wt-<id> and prompt files /tmp/prompt-<id>.txt
import json, sys, subprocess
props={}
for l in open('/verif/properties.jsonl'):
    p=json.loads(l); props[p['id']]=p
tmpl=open('/verif/bin/seed-prompt.tmpl').read()
for arg in sys.argv[1:]:
    pid, _, suffix = arg.partition('-')
    wt='/tmp/wt-'+arg
    subprocess.run(['git','-C','/repo','worktree','add','-q','--detach',wt,'HEAD'],check=True)
    p=props[pid]
    open('/tmp/prompt-%s.txt'%arg,'w').write(tmpl.format(wt=wt,title=p['title'],statement=p['statement'],quant=p['quantifier']['text'],extra=''))
    print('prepared',arg)
